"""C16 — FlowSpec rules mean on the wire what they say in text.  DESIGN.md 3/C16."""

from __future__ import annotations

import ast

from ..alpha import Loc, amatch
from ..cfg import CFG, handler_names
from ..const import UNKNOWN, Folder
from ..flow import flat_guards, parent_map
from ..model import Model, dotted, norm, walk_no_nested
from ..report import Run

FLOWMOD = 'exabgp.bgp.message.update.nlri.flow'
FLOW = FLOWMOD + '.Flow'

# RFC 8955 section 4.2.2 / RFC 8956 section 3: component type -> (name fragment, address families)
COMPONENTS = {
    1: ('destination', {'ipv4', 'ipv6'}),
    2: ('source', {'ipv4', 'ipv6'}),
    3: ('protocol|next-header', {'ipv4', 'ipv6'}),
    4: ('port', {'ipv4', 'ipv6'}),
    5: ('destination-port', {'ipv4', 'ipv6'}),
    6: ('source-port', {'ipv4', 'ipv6'}),
    7: ('icmp-type', {'ipv4', 'ipv6'}),
    8: ('icmp-code', {'ipv4', 'ipv6'}),
    9: ('tcp-flags', {'ipv4', 'ipv6'}),
    10: ('packet-length', {'ipv4', 'ipv6'}),
    11: ('dscp|traffic-class', {'ipv4', 'ipv6'}),
    12: ('fragment', {'ipv4', 'ipv6'}),
    13: ('flow-label', {'ipv6'}),
}

# RFC 8955 section 7 / RFC 7674 / draft-ietf-idr-flowspec-redirect-ip: (type, subtype) of the traffic actions
ACTIONS = {
    'TrafficRate': (0x80, 0x06),
    'TrafficAction': (0x80, 0x07),
    'TrafficRedirect': (0x80, 0x08),
    'TrafficRedirectASN4': (0x82, 0x08),
    'TrafficMark': (0x80, 0x09),
    'TrafficRatePackets': (0x80, 0x0C),
    'TrafficRedirectIPv6': (0x80, 0x0B),
}


def _ancestors(root: ast.AST, node: ast.AST) -> list[ast.AST]:
    pm = parent_map(root)
    out = []
    cur = pm.get(id(node))
    while cur is not None:
        out.append(cur)
        cur = pm.get(id(cur))
    return out


def _in_if_body(root: ast.AST, node: ast.AST) -> bool:
    """is node inside the body (not the else) of the outermost `if` of the function that contains it"""
    pm = parent_map(root)
    cur, prev = pm.get(id(node)), node
    top = None
    while cur is not None:
        if isinstance(cur, ast.If):
            top = (cur, prev)
        prev, cur = cur, pm.get(id(cur))
    if top is None:
        return False
    iff, child = top
    return any(child is s or any(child is x for x in ast.walk(s)) for s in iff.body)


def check(model: Model, run: Run) -> None:
    folder = Folder(model)
    mod = model.module('exabgp/bgp/message/update/nlri/flow.py')

    # ------------------------------------------------------------------ R1 ordering / EOL / AND / RD
    run.rule('C16.R1', '_pack_from_rules walks the components in ascending type order, clears the end-of-list bit on every operator and sets it on exactly the last one of each component, leaves the AND bit as written, and puts the route distinguisher first', floor=2)
    pf = model.func(FLOW + '._pack_from_rules')
    run.analysed(pf)
    loops = [n for n in walk_no_nested(pf.node) if isinstance(n, ast.For)]
    outer = next((l for l in loops if 'sorted(self.rules.keys())' in norm(l.iter) or 'sorted(self.rules)' in norm(l.iter)), None)
    run.check(outer is not None, pf.qualname, 'components iterated in sorted(type) order', pf.loc(), 'RFC 8955 4.2: components MUST follow strict type order')
    eol = folder.class_attr(FLOWMOD + '.CommonOperator', 'EOL')
    andb = folder.class_attr(FLOWMOD + '.CommonOperator', 'AND')
    clear = None
    seteol = None
    if outer is not None:
        for n in walk_no_nested(outer):
            if isinstance(n, ast.AugAssign) and isinstance(n.op, ast.BitAnd) and (dotted(n.target) or '').endswith('.operations'):
                clear = n
            if isinstance(n, ast.AugAssign) and isinstance(n.op, ast.BitOr) and norm(n.target).endswith('.operations'):
                seteol = n
    mask = folder.fold(clear.value, mod, None) if clear is not None else UNKNOWN
    okc = clear is not None and mask == (0xFF ^ 0x80) and eol == 0x80 and andb == 0x40
    run.check(okc, pf.qualname, 'EOL cleared with mask %s on every operator (AND bit 0x40 untouched)' % (hex(mask) if isinstance(mask, int) else mask), pf.loc(clear) if clear is not None else pf.loc(), 'only the end-of-list bit may be rewritten; the AND bit is what the operator wrote')
    last_b = amatch('V_r[-1].operations', seteol.target) if seteol is not None else None
    oks = last_b is not None and folder.fold(seteol.value, mod, None) == 0x80
    if oks:
        pm = parent_map(pf.node)
        oks = isinstance(pm.get(id(seteol)), ast.If) or isinstance(pm.get(id(seteol)), ast.For)
        # cleared in an inner loop over all rules, set after it
        inner = [l for l in walk_no_nested(outer) if isinstance(l, ast.For) and l is not outer and clear is not None and any(x is clear for x in ast.walk(l))]
        # the list whose last element gets the bit is the list the clearing loop walked
        oks = bool(inner) and seteol.lineno > inner[0].end_lineno and isinstance(inner[0].iter, ast.Name) and inner[0].iter.id == last_b['V_r']
    run.check(bool(oks), pf.qualname, 'EOL set on rules[-1] after the clearing loop', pf.loc(seteol) if seteol is not None else pf.loc(), 'RFC 8955 4.2.1.1: end-of-list on exactly the last {operator, value} pair of a component')
    comp = []
    for n in walk_no_nested(pf.node):
        if isinstance(n, ast.Assign) and isinstance(n.value, ast.BinOp) and isinstance(n.value.op, ast.Add):
            left = n.value
            while isinstance(left, ast.BinOp) and isinstance(left.op, ast.Add):
                left = left.left
            if amatch('bytes(E_rd.pack_rd())', left) is not None:
                comp.append(n)
    okrd = len(comp) == 1
    run.check(okrd, pf.qualname, 'components = RD + ordered rules', pf.loc(comp[0]) if comp else pf.loc(), 'RFC 8955 8: for flow-vpn the RD comes first')

    # ------------------------------------------------------------------ R2 width selection
    run.rule('C16.R2', 'value widths: a value below 2^8 takes 1 byte, below 2^16 2 bytes, else 4; rewop is the inverse of power (1,2,4,8 <-> 0..3) and the length bits sit at <<4', floor=5)
    # decided by evaluating the encoders at the width boundaries: which spelling of the thresholds is used does not matter
    from ..evalfn import eval_function
    import struct as _struct

    def shortest(v: int, widths: tuple[int, ...]) -> tuple[int, bytes]:
        for w in widths:
            if v < 1 << (8 * w) or w == widths[-1]:
                return w, v.to_bytes(w, 'big')
        raise AssertionError

    for cname, widths in ((FLOWMOD + '.IOperationByte', (1,)), (FLOWMOD + '.IOperationByteShort', (1, 2)), (FLOWMOD + '.IOperationByteShortLong', (1, 2, 4))):
        f = model.func(cname + '.encode')
        run.analysed(f)
        vp = f.node.args.args[-1].arg
        top = 1 << (8 * widths[-1])
        vals = [v for v in (0, 1, 255, 256, 65535, 65536, (1 << 32) - 1) if v < top]
        got = {v: eval_function(folder, f, {f.node.args.args[0].arg: {}, vp: v}) for v in vals}
        want = {v: shortest(v, widths) for v in vals}
        shown = {v: (r[0] if isinstance(r, tuple) and r else r) for v, r in got.items()}
        run.check(got == want, f.qualname, 'width by value %s' % shown, f.loc(), 'RFC 8955 4.2.1.1: each value in the shortest width it fits, and the announced width is the packed width; expected %s' % {v: w for v, (w, _) in want.items()})
    co = model.cls(FLOWMOD + '.CommonOperator')
    power = co.assigns.get('power')
    rewop = co.assigns.get('rewop')
    p = {folder.fold(k, mod, co): folder.fold(v, mod, co) for k, v in zip(power.keys, power.values)} if isinstance(power, ast.Dict) else {}
    r = {folder.fold(k, mod, co): folder.fold(v, mod, co) for k, v in zip(rewop.keys, rewop.values)} if isinstance(rewop, ast.Dict) else {}
    run.check(p == {0: 1, 1: 2, 2: 4, 3: 8} and r == {v: k for k, v in p.items()}, co.qualname, 'power %s / rewop %s' % (p, r), co.loc(), 'length bits: 0..3 <-> 1,2,4,8 bytes')
    l2b = model.func(FLOWMOD + '._len_to_bit')
    got_b = {w: eval_function(folder, l2b, {l2b.node.args.args[-1].arg: w}) for w in (1, 2, 4, 8)}
    run.check(got_b == {1: 0x00, 2: 0x10, 4: 0x20, 8: 0x30}, l2b.qualname, 'length bits for 1 / 2 / 4 / 8 octets: %s' % got_b, l2b.loc(), 'the length field is bits 5-4 of the operator byte')
    ln = model.func(FLOWMOD + '.CommonOperator.length')
    got_l = {b_: eval_function(folder, ln, {ln.node.args.args[-1].arg: b_}) for b_ in (0x00, 0x81, 0x10, 0x25, 0x30, 0xB1)}
    run.check(got_l == {0x00: 1, 0x81: 1, 0x10: 2, 0x25: 4, 0x30: 8, 0xB1: 8} and folder.class_attr(co.qualname, 'LEN') == 0x30, ln.qualname, 'value width for operator bytes: %s' % {hex(k): v for k, v in got_l.items()}, ln.loc(), 'decoder: width = 1 << length bits')

    # a decoded value the walk keeps: _parse_operations adds an operator only when its value is a BaseValue, so every component
    # decoder must produce one (an int out of `_number(x) & mask` is dropped without a word and the rule comes out broader)
    BASEV = 'exabgp.protocol.resource.BaseValue'

    def yields_value(e: ast.AST, depth: int = 0) -> bool:
        if depth > 3:
            return False
        if isinstance(e, ast.Call):
            if isinstance(e.func, ast.Name) and e.func.id == 'decoder' and e.args:
                k = e.args[1] if len(e.args) > 1 else None
                if k is None:
                    return True  # decoder(function) wraps in NumericValue
                kd = dotted(k) or ''
                cands = [q for q in model.classes if q.endswith('.' + kd.rsplit('.', 1)[-1])]
                return any(model.is_subclass(q, BASEV) for q in cands)
            for q in model.callees(mod, e):
                if q in model.classes or q.rsplit('.', 1)[0] in model.classes and q.endswith('.__init__'):
                    cq = q if q in model.classes else q.rsplit('.', 1)[0]
                    return model.is_subclass(cq, BASEV)
                f_ = model.funcs.get(q)
                if f_ is not None:
                    rets_ = [r for r in walk_no_nested(f_.node) if isinstance(r, ast.Return) and r.value is not None]
                    return bool(rets_) and all(yields_value(r.value, depth + 1) for r in rets_)
            return False
        if isinstance(e, ast.Name):
            f_ = mod.functions.get(e.id)
            if f_ is not None:
                rets_ = [r for r in walk_no_nested(f_.node) if isinstance(r, ast.Return) and r.value is not None]
                return bool(rets_) and all(yields_value(r.value, depth + 1) for r in rets_)
            kq = [q for q in model.classes if q.endswith('.' + e.id)]
            return any(model.is_subclass(q, BASEV) for q in kq)
        return False

    n_dec = 0
    for ci in mod.classes.values():
        dv = ci.assigns.get('decoder')
        if dv is None or not isinstance(folder.class_attr(ci.qualname, 'ID'), int):
            continue
        n_dec += 1
        run.check(yields_value(dv), ci.qualname, 'decoder %s yields a BaseValue' % norm(dv)[:50], ci.loc(), 'Flow._parse_operations keeps an operator only when its decoded value is a BaseValue: a decoder that returns a plain int (the result of `&` on a NumericValue) makes every operator of the component vanish, and `destination 10.0.0.0/8 dscp =46` is delivered as `destination 10.0.0.0/8`')
    if n_dec < 10:
        run.cannot('only %d component decoders found' % n_dec)

    # ------------------------------------------------------------------ R3 component registry
    run.rule('C16.R3', 'component registry: types 1-13 with the RFC 8955 / 8956 names and address families', floor=8)
    found: dict[int, list[tuple[str, set[str], str]]] = {}
    for ci in mod.classes.values():
        idv = folder.class_attr(ci.qualname, 'ID')
        nm = folder.class_attr(ci.qualname, 'NAME')
        if not isinstance(idv, int) or not isinstance(nm, str):
            continue
        fams = set()
        for b in ci.mro:
            if b.endswith('.FlowIPv4'):
                fams.add('ipv4')
            if b.endswith('.FlowIPv6'):
                fams.add('ipv6')
        if not fams:
            continue
        found.setdefault(idv, []).append((nm, fams, ci.qualname))
    for cid, (names, fams) in COMPONENTS.items():
        recs = found.get(cid, [])
        gf = set().union(*[f for _, f, _ in recs]) if recs else set()
        gn = {n for n, _, _ in recs}
        ok = bool(recs) and gf == fams and all(any(a in (n or '') for a in names.split('|')) for n in gn)
        run.check(ok, FLOWMOD, 'component %d = %s for %s' % (cid, sorted(map(str, gn)), sorted(gf)), 'src/' + mod.rel, 'RFC 8955/8956 component %d is %s for %s' % (cid, names, sorted(fams)))
    extra = sorted(set(found) - set(COMPONENTS))
    run.check(not extra, FLOWMOD, 'no component outside 1-13 (%s)' % extra, 'src/' + mod.rel, 'undefined component types must be refused, not decoded')

    # ------------------------------------------------------------------ R4 NLRI length: writer / reader
    run.rule('C16.R4', 'NLRI length: one byte below 240, two bytes 0xFnnn from 240 to 4095 inclusive; the decoder rebuilds the length with the same masks and an 8-bit shift of the high nibble', floor=3)
    flow_length_rule(model, run, folder)
    un = model.func(FLOW + '.unpack_nlri')

    # ------------------------------------------------------------------ R5 never a shorter rule
    run.rule('C16.R5', 'a malformed NLRI is never delivered as a shorter rule: undefined component and truncated value raise; no break/continue keeps partial rules; the value slice is compared with its announced width; unpack_nlri maps the failures to NLRI.INVALID', floor=4)
    pr = model.func(FLOW + '._parse_rules')
    po = model.func(FLOW + '._parse_operations')
    run.analysed(pr)
    run.analysed(po)
    for f in (pr, po):
        bad = [n for n in walk_no_nested(f.node) if isinstance(n, (ast.Break, ast.Continue))]
        run.check(not bad, f.qualname, 'no break/continue in the component walk', f.loc(bad[0]) if bad else f.loc(), 'leaving the walk early keeps the rules parsed so far: a shorter, broader rule')
    prl = Loc(model, pr)
    und = [n for n in walk_no_nested(pr.node) if isinstance(n, ast.If) and amatch('V_w not in decode.get(self.afi, {})', prl.expanded(n.test, keep=[x.id for x in ast.walk(n.test) if isinstance(x, ast.Name)][:1])) is not None]
    run.check(bool(und) and isinstance(und[0].body[-1], ast.Raise), pr.qualname, 'undefined component raises', pr.loc(und[0]) if und else pr.loc(), 'RFC 8955 4.3: an unknown component makes the NLRI malformed')
    # value slice vs announced width
    bp = po.node.args.args[2].arg if len(po.node.args.args) > 2 else '?'
    sl = []
    vname = wname = None
    for n in walk_no_nested(po.node):
        if isinstance(n, ast.Assign) and isinstance(n.targets[0], ast.Tuple) and isinstance(n.value, ast.Tuple) and len(n.value.elts) == 2:
            for pat in ('bytes(V_b[:V_n])', 'V_b[:V_n]'):
                b = amatch(pat, n.value.elts[0], {'V_b': bp})
                if b is not None and amatch('V_b[V_n:]', n.value.elts[1], b) is not None:
                    sl.append(n)
                    vname, wname = dotted(n.targets[0].elts[0]), str(b['V_n'])
    okv = False
    why = 'value slice not found'
    if sl:
        after = [n for n in walk_no_nested(po.node) if isinstance(n, ast.If) and n.lineno > sl[0].lineno and any(amatch(pt, n.test, {'V_v': vname, 'V_n': wname}) is not None for pt in ('len(V_v) != V_n', 'len(V_v) < V_n', 'V_n != len(V_v)', 'V_n > len(V_v)')) and isinstance(n.body[-1], ast.Raise)]
        before = [n for n in walk_no_nested(po.node) if isinstance(n, ast.If) and n.lineno < sl[0].lineno and any(amatch(pt, n.test, {'V_b': bp, 'V_n': wname}) is not None for pt in ('len(V_b) < V_n', 'V_n > len(V_b)')) and isinstance(n.body[-1], ast.Raise)]
        okv = bool(after or before)
        why = 'the value is cut out of the buffer without comparing the bytes obtained with the announced width'
    run.check(okv, po.qualname, 'value of announced width checked to be complete', po.loc(sl[0]) if sl else po.loc(), why + ': a value cut short by the end of the NLRI is read at a smaller width and the rule delivered')
    wid = [n for n in walk_no_nested(po.node) if isinstance(n, ast.If) and wname is not None and amatch('V_n not in _VALUE_WIDTHS', n.test, {'V_n': wname}) is not None and isinstance(n.body[-1], ast.Raise)]
    run.check(bool(wid), po.qualname, 'undefined width raises', po.loc(), 'widths are 1, 2, 4, 8')
    eolk = [n for n in walk_no_nested(po.node) if isinstance(n, ast.If) and amatch('not V_b', n.test, {'V_b': bp}) is not None and isinstance(n.body[-1], ast.Raise)]
    run.check(bool(eolk), po.qualname, 'component without end-of-list raises', po.loc(), 'running out of bytes before EOL is malformed')
    tries = [n for n in walk_no_nested(un.node) if isinstance(n, ast.Try)]
    okh = False
    if tries:
        hs = {}
        for h in tries[-1].handlers:
            for nm in handler_names(h):
                last = h.body[-1]
                hs[nm] = isinstance(last, ast.Return) and isinstance(last.value, ast.Tuple) and len(last.value.elts) == 2 and dotted(last.value.elts[0]) == 'NLRI.INVALID'
        okh = all(hs.get(k) is True for k in ('Notify', 'ValueError', 'IndexError'))
    run.check(okh, un.qualname, 'Notify/ValueError/IndexError -> NLRI.INVALID', un.loc(), 'RFC 8955 4.3: malformed NLRI is treated as a withdraw, never as a shorter rule')

    # ------------------------------------------------------------------ R6 traffic actions
    run.rule('C16.R6', 'traffic actions map to the RFC extended communities (type, subtype)', floor=4)
    tmod = model.module('exabgp/bgp/message/update/attribute/community/extended/traffic.py')
    for cn, want in ACTIONS.items():
        ci = tmod.classes.get(cn)
        if ci is None:
            run.cannot('class %s vanished' % cn)
            continue
        got = (folder.class_attr(ci.qualname, 'COMMUNITY_TYPE'), folder.class_attr(ci.qualname, 'COMMUNITY_SUBTYPE'))
        run.check(got == want, ci.qualname, '(type, subtype) = (%s, %s)' % tuple(hex(x) if isinstance(x, int) else x for x in got), ci.loc(), 'RFC 8955 7 wants (%s, %s)' % (hex(want[0]), hex(want[1])))

    # ------------------------------------------------------------------ R7 AND bits as written (text parser)
    run.rule(
        'C16.R8',
        'the flow text parser and the community / NLRI constructors agree on the order of their arguments: no call in the flow '
        'parser, the flow NLRI or the extended-community package passes two same-typed values in the order opposite to the '
        'parameters they are named after (make_traffic_action(sample, terminal))',
        floor=1,
    )
    from .common import swapped_arguments_rule

    swapped_arguments_rule(
        model,
        run,
        ('exabgp.configuration.flow.', 'exabgp.bgp.message.update.nlri.flow.', 'exabgp.bgp.message.update.attribute.community.', 'exabgp.reactor.api.', 'exabgp.configuration.static.', 'exabgp.configuration.l2vpn.', 'exabgp.configuration.announce.'),
        '`action sample` is sent as the terminal-action bit and `action terminal` as the sample bit',
        floor=20,
    )

    run.rule(
        'C16.R9',
        'a copied flow rule is the same rule: __copy__ / __deepcopy__ of the NLRI classes give the copy every slot of the original '
        '(a flow-vpn rule parsed from configuration keeps its route distinguisher in a slot of its own until it is packed)',
        floor=10,
    )
    from .common import copy_completeness_rule

    copy_completeness_rule(model, run, ('exabgp.bgp.message.update.nlri.',), 'a flow-vpn rule configured for a multi-session neighbor (the one place where configured routes are deep-copied) is announced without its route distinguisher', floor=10)

    run.rule('C16.R7', 'the text parser gives each operator the AND bit its own term carries: between two yielded operators the AND flag is always reassigned (AND after "&", NOP for a new list term)', floor=1)
    and_flag_rule(model, run)


def and_flag_rule(model: Model, run: Run) -> None:
    """shared by C16.R7 and C18.R5"""
    gc = model.func('exabgp.configuration.flow.parser._generic_condition')
    run.analysed(gc)
    from ..typestate import propagate

    cfg = CFG(gc.node, may_raise=lambda st: False)
    ys = [n for n in walk_no_nested(gc.node) if isinstance(n, ast.Yield)]
    stale: dict[int, bool] = {}
    gl = Loc(model, gc)
    # the flag: the local OR-ed into the operator of every yielded condition, bound to BinaryOperator.NOP / AND
    flag_names = set(gl.from_value(lambda v: (dotted(v) or '') in ('BinaryOperator.NOP', 'BinaryOperator.AND')))
    used = set()
    for y in ys:
        for x in ast.walk(y.value) if y.value is not None else []:
            if isinstance(x, ast.BinOp) and isinstance(x.op, ast.BitOr):
                used |= {o.id for o in (x.left, x.right) if isinstance(o, ast.Name) and o.id in flag_names}
    if len(used) != 1:
        run.cannot('_generic_condition: the AND flag OR-ed into the yielded operators was not found (%s)' % sorted(used))
        return
    FLAG = next(iter(used))

    def transfer(node, val):
        # val: 'fresh' when AND was (re)assigned since the last yielded operator, 'stale' otherwise
        a = node.ast
        if node.kind == 'stmt' and a is not None:
            if isinstance(a, (ast.Assign, ast.AnnAssign)):
                tg = a.targets[0] if isinstance(a, ast.Assign) else a.target
                if isinstance(tg, ast.Name) and tg.id == FLAG:
                    return ['fresh']
            for y in ys:
                if any(x is y for x in ast.walk(a)):
                    if val == 'stale':
                        stale[y.lineno] = True
                    else:
                        stale.setdefault(y.lineno, False)
                    return ['stale']
        return [val]

    propagate(cfg, 'stale', transfer)
    for y in ys:
        uses_and = FLAG in {x.id for x in ast.walk(y.value) if isinstance(x, ast.Name)} if y.value is not None else False
        run.check(
            uses_and and stale.get(y.lineno) is False,
            gc.qualname,
            'operator %s built with the AND flag, which is reassigned before every operator' % ('of the bracketed list form' if any(isinstance(p_, ast.If) for p_ in _ancestors(gc.node, y)) and _in_if_body(gc.node, y) else 'of the plain form'),
            gc.loc(y),
            'a path reaches this operator without AND having been reassigned since the previous one: an "&" seen earlier leaks onto later OR terms, `[ >8080&<8088 =3128 ]` is sent as three ANDed tests',
        )

def flow_length_rule(model: Model, run: Run, folder: Folder) -> None:
    """shared by C16.R4 and C15.R10"""
    mod = model.func(FLOW + '._encode_length').module
    el = model.func(FLOW + '._encode_length')
    un = model.func(FLOW + '.unpack_nlri')
    run.analysed(el)
    run.analysed(un)
    c = {k: folder.fold(mod.assigns[k], mod, None) for k in mod.assigns if k.startswith('FLOW_LENGTH_')}
    # the writer is evaluated for lengths around the two boundaries (sa/evalfn.py): what it writes, not how it is spelt
    from ..evalfn import eval_function

    cp = el.node.args.args[-1].arg
    seen = {}
    okc = okx = True
    top = None
    for n in (0, 1, 239, 240, 241, 4094, 4095, 4096):
        v = eval_function(folder, el, {cp: bytes(n)})
        seen[n] = v[:2].hex() if isinstance(v, bytes) else 'refused'
        if n < 240:
            okc = okc and isinstance(v, bytes) and v[:1] == bytes([n]) and len(v) == n + 1
        elif isinstance(v, bytes):
            okx = okx and v[:2] == (0xF000 | n).to_bytes(2, 'big') and len(v) == n + 2
            top = n
    okc = okc and isinstance(eval_function(folder, el, {cp: bytes(240)}), bytes) and eval_function(folder, el, {cp: bytes(240)})[:1] == b'\xf0' and len(eval_function(folder, el, {cp: bytes(240)})) == 242
    compact = ext = None
    run.check(okc, el.qualname, 'compact form iff length < 240', el.loc(), 'RFC 8955 4.1: one length byte below 240 (first bytes written for 0, 1, 239, 240, 241, 4094, 4095, 4096: %s); a length of 240 written on one byte is 0xF0, which the decoder takes for the start of a two-byte length' % seen)
    run.check(okx and c.get('FLOW_LENGTH_EXTENDED_VALUE') == 0xF0, el.qualname, 'extended form = 0xF000 | length on two bytes', el.loc(), 'RFC 8955 4.1: 0xFnnn (%s)' % seen)
    run.check(top == 4095, el.qualname, 'largest encodable NLRI length is %s' % top, el.loc(), 'RFC 8955 4.1: the two-byte form covers 240 to 4095 inclusive; a rule of exactly 4095 bytes must be encodable and 4096 refused')
    # decoder: evaluated on NLRIs of 5, 240, 301 and 4095 octets (with octets of the next NLRI behind them) - whatever the
    # locals are called and whether the prefix is read in place or in a helper, some local must hold exactly the announced
    # payload and some local exactly what follows it when the rules are about to be parsed
    from ..evalfn import Raised

    dparam = un.node.args.args[3].arg if len(un.node.args.args) > 3 else '?'
    first = {un.node.args.args[0].arg: {}} if un.node.args.args else {}
    seen_d = {}
    okd = True
    for n, prefix, tail in ((5, bytes([5]), b'\xaa\xbb'), (240, bytes([0xF0, 0xF0]), b'\xaa'), (301, bytes([0xF1, 0x2D]), b''), (4095, bytes([0xFF, 0xFF]), b'\xcc' * 3)):
        payload = bytes((i * 7 + n) % 251 for i in range(n))
        envd: dict = {}
        r = eval_function(folder, un, dict(first, **{dparam: prefix + payload + tail}), env_out=envd, outcomes=True, max_steps=200)
        vals = [v for k, v in envd.items() if isinstance(v, bytes) and k != dparam]
        good = not isinstance(r, Raised) and payload in vals and (tail in vals or envd.get(dparam) == tail)
        seen_d[n] = 'payload and rest found' if good else ('refused' if isinstance(r, Raised) else 'locals %s' % sorted((k, len(v)) for k, v in envd.items() if isinstance(v, bytes)))
        okd = okd and good
    run.check(okd, un.qualname, 'length prefix decoded for NLRIs of 5 / 240 / 301 / 4095 octets: %s' % seen_d, un.loc(), "the reader must invert the writer: one octet below 240, else 0xFnnn on two octets with the low nibble of the first holding bits 11-8 (a shift other than 8 turns a 301 octet rule `f1 2d` into one that needs 65581 octets)")
    oks = True
    seen_t = {}
    for label, buf in (('5 announced, 3 present', bytes([5]) + bytes(3)), ('first octet of a two octet length alone', bytes([0xF0])), ('300 announced, 10 present', bytes([0xF1, 0x2C]) + bytes(10)), ('nothing', b'')):
        r = eval_function(folder, un, dict(first, **{dparam: buf}), outcomes=True, max_steps=200)
        seen_t[label] = 'refused' if isinstance(r, Raised) else str(r)[:40]
        oks = oks and isinstance(r, Raised)
    run.check(oks, un.qualname, 'declared length checked against the data left: %s' % seen_t, un.loc(), 'a truncated NLRI must be refused')
