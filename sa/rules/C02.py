"""C02 — reported routes are exactly what the peer sent.  DESIGN.md 3/C02."""

from __future__ import annotations

import ast
import copy

from ..const import UNKNOWN, Folder
from ..alpha import Loc, amatch
from ..flow import flat_guards, parent_map
from ..labels import LabelFlow
from ..model import FuncInfo, Model, dotted, norm, walk_no_nested
from ..report import Run
from .common import CallGraph, short

UC = 'exabgp.bgp.message.update.collection.UpdateCollection'
AC = 'exabgp.bgp.message.update.attribute.collection.AttributeCollection'
MPR = 'exabgp.bgp.message.update.attribute.mprnlri.MPRNLRI'
MPU = 'exabgp.bgp.message.update.attribute.mpurnlri.MPURNLRI'
UH = 'exabgp.reactor.peer.handlers.update.UpdateHandler'


# ---------------------------------------------------------------------------------------------- sibling normal form
class _Normalise(ast.NodeTransformer):
    def visit_Await(self, node: ast.Await) -> ast.AST:
        return self.visit(node.value)

    def visit_AsyncFor(self, node: ast.AsyncFor) -> ast.AST:
        n = ast.For(target=node.target, iter=node.iter, body=node.body, orelse=node.orelse, type_comment=None)
        return self.generic_visit(ast.copy_location(n, node))

    def visit_AsyncWith(self, node: ast.AsyncWith) -> ast.AST:
        n = ast.With(items=node.items, body=node.body, type_comment=None)
        return self.generic_visit(ast.copy_location(n, node))


def normal_form(fn: ast.AST) -> list[str]:
    """Statements of a function body: awaits stripped, docstrings / logging / trailing `return; yield` plumbing removed."""
    body = copy.deepcopy(list(fn.body))  # type: ignore[attr-defined]
    out: list[str] = []

    def is_log(st: ast.stmt) -> bool:
        return isinstance(st, ast.Expr) and isinstance(st.value, ast.Call) and (dotted(st.value.func) or '').startswith('log.')

    def clean(stmts: list[ast.stmt]) -> list[ast.stmt]:
        res = []
        for st in stmts:
            if isinstance(st, ast.Expr) and isinstance(st.value, ast.Constant) and isinstance(st.value.value, str):
                continue
            if is_log(st):
                continue
            if isinstance(st, ast.Expr) and isinstance(st.value, (ast.Yield,)) and st.value.value is None:
                continue
            if isinstance(st, ast.Return) and st.value is None:
                continue
            for f in ('body', 'orelse', 'finalbody'):
                if hasattr(st, f) and isinstance(getattr(st, f), list):
                    setattr(st, f, clean(getattr(st, f)) or [ast.Pass()])
            res.append(st)
        return res

    for st in clean(body):
        st = _Normalise().visit(st)
        ast.fix_missing_locations(st)
        out.append(norm(st))
    return out


def first_difference(a: list[str], b: list[str]) -> tuple[int, str, str] | None:
    for i in range(max(len(a), len(b))):
        x = a[i] if i < len(a) else '<missing>'
        y = b[i] if i < len(b) else '<missing>'
        if x != y:
            return i, x, y
    return None


def check(model: Model, run: Run) -> None:
    folder = Folder(model)
    pp = model.func(UC + '._parse_payload')
    run.analysed(pp)
    mod = pp.module

    # ------------------------------------------------------------------ R1 label flow
    run.rule(
        'C02.R1',
        'announce/withdraw label flow in _parse_payload: NLRIs cut from the withdrawn section and MP_UNREACH reach only the '
        'withdraws list, those from the trailing NLRI section and MP_REACH only the announces list; the Action passed to the '
        'decoder agrees; the lists are passed to UpdateCollection at the positions of the parameters of the same name; the '
        'only filter on the way is `is not NLRI.INVALID`; JSON/text renderers and the Adj-RIB-In handler read the matching list',
        floor=8,
    )
    # split() order: three slices of the payload, the first right after the 2-byte withdrawn length, the last open
    # ended and starting where the second stops
    split = model.func(UC + '.split')
    sloc = Loc(model, split)
    rets = [r for r in walk_no_nested(split.node) if isinstance(r, ast.Return) and isinstance(r.value, ast.Tuple)]
    elts = [sloc.resolve(e) for e in rets[-1].value.elts] if rets else []
    buf = split.node.args.args[0].arg if split.node.args.args else '?'
    shape = len(elts) == 3 and all(isinstance(e, ast.Subscript) and isinstance(e.slice, ast.Slice) and dotted(e.value) == buf for e in elts)
    order_ok = False
    if shape:
        e0, e1, e2 = (e.slice for e in elts)  # type: ignore[union-attr]
        order_ok = (
            e0.lower is not None
            and folder.fold(e0.lower, split.module) == 2
            and e2.upper is None
            and e1.upper is not None
            and e2.lower is not None
            and sloc.expand(e1.upper) == sloc.expand(e2.lower)
            and e1.lower is not None
            and e0.upper is not None
            and sloc.expand(e0.upper) != sloc.expand(e1.upper)
        )
    if not shape:
        run.cannot('split(): return of three slices of the payload not found (shape not understood)')
    run.check(order_ok, split.qualname, 'split returns (payload[2:..], payload[a:b], payload[b:])', split.loc(), 'RFC 4271 4.3: withdrawn routes, path attributes, NLRI - in this order')
    ploc = Loc(model, pp)
    if len(ploc.unpacked_from_call('UpdateCollection.split')) != 3:
        run.cannot('split() unpacking not found in _parse_payload')
        return
    taw_ifs = [n for n in walk_no_nested(pp.node) if isinstance(n, ast.If) and 'INTERNAL_TREAT_AS_WITHDRAW' in ploc.expand(n.test)]
    taw_stmts = {id(x) for n in taw_ifs for b in n.body for x in ast.walk(b)}

    def seed(e: ast.AST) -> tuple[str, ...]:
        if isinstance(e, ast.Call) and isinstance(e.func, ast.Attribute) and e.func.attr in ('pop', 'get') and e.args:
            k = dotted(e.args[0]) or ''
            if k.startswith('MPURNLRI'):
                return ('W.mp',)
            if k.startswith('MPRNLRI'):
                return ('A.mp',)
            if k.endswith('NEXT_HOP'):
                return ('NH',)
        return ()

    def seed_unpack(value: ast.AST, i: int) -> tuple[str, ...]:
        if isinstance(value, ast.Call) and model.call_matches(mod, value, 'UpdateCollection.split'):
            return (('W.sec',), ('attr',), ('A.sec',))[i] if i < 3 else ()
        return ()

    lf = LabelFlow(pp.node, seed, seed_unpack, ignore=lambda st: id(st) in taw_stmts)

    def routes(labs: frozenset[str]) -> set[str]:
        return {x for x in labs if x[0] in 'WA' and '.' in x}

    # the constructor call: which parameter of __init__ ends in _announces / _withdraws
    ctor = [c for r in walk_no_nested(pp.node) if isinstance(r, ast.Return) and isinstance(r.value, ast.Call) and isinstance(r.value.func, ast.Name) and r.value.func.id == 'cls' for c in [r.value]]
    if len(ctor) != 1 or len(ctor[0].args) < 3:
        run.cannot('return cls(announces, withdraws, attributes) not found')
        return
    init = model.func(UC + '.__init__')
    iparams = [a.arg for a in init.node.args.args][1:]
    pos: dict[str, int] = {}
    for n in walk_no_nested(init.node):
        if isinstance(n, (ast.Assign, ast.AnnAssign)):
            tg = n.targets[0] if isinstance(n, ast.Assign) else n.target
            if n.value is not None and isinstance(n.value, ast.Name) and n.value.id in iparams and dotted(tg) in ('self._announces', 'self._withdraws'):
                pos[(dotted(tg) or '')[6:]] = iparams.index(n.value.id)
    run.check(set(pos) == {'announces', 'withdraws'} and pos['announces'] != pos['withdraws'], init.qualname, 'stores each list under its own attribute (parameter positions %s)' % pos, init.loc(), '__init__ must keep announces and withdraws apart')
    if set(pos) != {'announces', 'withdraws'}:
        return
    la = routes(lf.of(ctor[0].args[pos['announces']]))
    lw = routes(lf.of(ctor[0].args[pos['withdraws']]))
    run.check(la == {'A.sec', 'A.mp'} and lw == {'W.sec', 'W.mp'}, pp.qualname, 'UpdateCollection(announces <- %s, withdraws <- %s)' % (sorted(la), sorted(lw)), pp.loc(ctor[0]), 'routes of the NLRI section and of MP_REACH must reach the announces, routes of the withdrawn section and of MP_UNREACH the withdraws, and nothing else (the treat-as-withdraw move aside)')
    # decoder calls
    calls = model.calls_to(mod, pp.node, 'NLRI.unpack_nlri')
    if len(calls) != 2:
        run.cannot('expected 2 NLRI.unpack_nlri calls in _parse_payload, found %d' % len(calls))
    pm = parent_map(pp.node)
    for c in calls:
        if len(c.args) < 4:
            continue
        labs = routes(lf.of(c.args[2]))
        lab = {'W.sec': 'W', 'A.sec': 'A'}.get(next(iter(labs)), None) if len(labs) == 1 else None
        act = (dotted(c.args[3]) or '').rsplit('.', 1)[-1]
        want_act = {'W': 'WITHDRAW', 'A': 'ANNOUNCE'}.get(lab or '', '?')
        afi_ok = norm(c.args[0]) == 'AFI.ipv4' and norm(c.args[1]) == 'SAFI.unicast'
        run.check(lab in ('W', 'A') and act == want_act and afi_ok, pp.qualname, 'decoder of the %s section gets Action.%s, ipv4 unicast' % ({'W': 'withdrawn', 'A': 'NLRI'}.get(lab or '', '?'), act), pp.loc(c), 'the %s section holds %s routes of ipv4 unicast' % ({'W': 'withdrawn', 'A': 'NLRI'}.get(lab or '', '?'), want_act.lower()))
        # what may stand between the decoder and the list: only the INVALID test on the decoded route
        st = pm.get(id(c))
        decoded = None
        if isinstance(st, ast.Assign) and isinstance(st.targets[0], ast.Tuple) and st.targets[0].elts and isinstance(st.targets[0].elts[0], ast.Name):
            decoded = st.targets[0].elts[0].id
        loop = st
        while loop is not None and not isinstance(loop, ast.While):
            loop = pm.get(id(loop))
        bad = []
        nsinks = 0
        if loop is not None and decoded is not None:
            for x in walk_no_nested(loop):
                if isinstance(x, ast.Call) and isinstance(x.func, ast.Attribute) and x.func.attr in ('append', 'extend') and isinstance(x.func.value, ast.Name):
                    nsinks += 1
                    for t, pol in flat_guards(pp.node, x):
                        if t is loop.test or not (loop.lineno <= t.lineno <= (loop.end_lineno or 0)):
                            continue
                        if amatch('V_n is not NLRI.INVALID', t, {'V_n': decoded}) is not None and pol:
                            continue
                        if decoded not in {n.id for n in ast.walk(t) if isinstance(n, ast.Name)}:
                            continue  # a choice that does not look at the route (how the next hop is represented)
                        bad.append((norm(t), pol))
        run.check(decoded is not None and nsinks >= 1 and not bad, pp.qualname, 'only the INVALID filter stands between the %s decoder and its list' % lab, pp.loc(c), 'a decoded route is dropped under %s' % bad)
    # MP_REACH routes carry the next hop of that attribute
    for x in walk_no_nested(pp.node):
        if isinstance(x, ast.Call) and isinstance(x.func, ast.Attribute) and x.func.attr == 'extend' and x.args and id(x) not in taw_stmts and 'A.mp' in lf.of(x.args[0]):
            run.check(isinstance(x.args[0], ast.Call) and model.call_matches(mod, x.args[0], 'MPRNLRI.iter_routed'), pp.qualname, 'MP_REACH routes carry their own next hop (iter_routed)', pp.loc(x), 'MP_REACH routes must come with the next hop of that attribute')
    # MP decoders use the right Action
    gen = model.funcs.get(MPR + '._parse_nexthop_and_nlris.nlri_generator')
    if gen is not None:
        cs = model.calls_to(gen.module, gen.node, 'NLRI.unpack_nlri')
        run.check(bool(cs) and all((dotted(c.args[3]) or '').endswith('ANNOUNCE') for c in cs), gen.qualname, 'MP_REACH NLRIs decoded with Action.ANNOUNCE', gen.loc(), 'MP_REACH carries reachable routes')
    mit = model.func(MPU + '.__iter__')
    cs = model.calls_to(mit.module, mit.node, 'NLRI.unpack_nlri')
    run.check(bool(cs) and all((dotted(c.args[3]) or '').endswith('WITHDRAW') for c in cs), mit.qualname, 'MP_UNREACH NLRIs decoded with Action.WITHDRAW', mit.loc(), 'MP_UNREACH carries unreachable routes')
    # renderers / handler
    ju = model.func('exabgp.reactor.api.response.json.JSON._update')
    run.analysed(ju)

    def jseed(e: ast.AST) -> tuple[str, ...]:
        if isinstance(e, ast.Attribute) and e.attr in ('announces', 'withdraws'):
            return ('A',) if e.attr == 'announces' else ('W',)
        return ()

    jf = LabelFlow(ju.node, jseed)
    found = {}
    for n in walk_no_nested(ju.node):
        if isinstance(n, ast.JoinedStr):
            text = ''.join(v.value for v in n.values if isinstance(v, ast.Constant) and isinstance(v.value, str))
            for key, want, other in (('"announce"', 'A', 'W'), ('"withdraw"', 'W', 'A')):
                if key in text:
                    labs = set()
                    for v in n.values:
                        if isinstance(v, ast.FormattedValue):
                            labs |= jf.of(v.value)
                    found[key] = (want in labs and other not in labs, sorted(labs), n)
    if set(found) != {'"announce"', '"withdraw"'}:
        run.cannot('JSON._update: the f-strings building "announce" / "withdraw" were not found (shape not understood)')
    for key, (ok, labs, n) in sorted(found.items()):
        run.check(ok, ju.qualname, '%s is rendered from %s' % (key, labs), ju.loc(n), 'JSON must report announces under "announce" and withdraws under "withdraw"')
    for name in ('handle', 'handle_async'):
        h = model.func(UH + '.' + name)
        run.analysed(h)
        pairs = {}
        for f in walk_no_nested(h.node):
            if isinstance(f, ast.For):
                src = (dotted(f.iter) or '').rsplit('.', 1)[-1]
                for c in walk_no_nested(f):
                    if isinstance(c, ast.Call) and isinstance(c.func, ast.Attribute) and c.func.attr in ('update_cache', 'update_cache_withdraw'):
                        pairs.setdefault(src, set()).add(c.func.attr)
        run.check(pairs == {'announces': {'update_cache'}, 'withdraws': {'update_cache_withdraw'}}, h.qualname, 'Adj-RIB-In: %s' % {k: sorted(v) for k, v in pairs.items()}, h.loc(), 'announces are stored, withdraws removed')

    # ------------------------------------------------------------------ R2 siblings
    run.rule('C02.R2', 'sibling agreement: UpdateHandler.handle and handle_async are the same in normal form; MPRNLRI.unpack_attribute and _parse_nexthop_and_nlris walk the same offsets (3, +1 next-hop length, +len_nh, +1 reserved)', floor=2)
    a = normal_form(model.func(UH + '.handle').node)
    b = normal_form(model.func(UH + '.handle_async').node)
    d = first_difference(a, b)
    run.check(d is None, UH + '.handle/handle_async', 'identical in normal form (%d statements)' % len(a), model.func(UH + '.handle_async').loc(), 'the two handlers diverge at statement %s: sync `%s` / async `%s`' % ((d[0] + 1, d[1][:90], d[2][:90]) if d else ('', '', '')))

    def offsets(fi: FuncInfo) -> tuple[str | None, list[str]]:
        """the cursor variable (first bound to a constant, then only advanced) and how it moves; names do not matter"""
        loc = Loc(model, fi)
        for nm, ds0 in loc.defs.items():
            ds = sorted(ds0, key=lambda d: (d[2].lineno, d[2].col_offset))
            hows = [h for _, h, _ in ds]
            if len(ds) >= 3 and hows[0] == 'assign' and all(h == 'aug' for h in hows[1:]) and isinstance(ds[0][0], ast.Constant):
                out = ['=%s' % ds[0][0].value]
                for v, _, _ in sorted(ds[1:], key=lambda d: d[2].lineno):
                    r = loc.resolve(v) if v is not None else v
                    if isinstance(r, ast.Constant):
                        out.append('+=%s' % r.value)
                    elif isinstance(r, ast.Subscript) and isinstance(r.slice, ast.Name) and r.slice.id == nm:
                        out.append('+=byte[cursor]')
                    else:
                        out.append('+=' + (loc.expand(v) if v is not None else '?'))
                return nm, out
        return None, []

    ua = model.func(MPR + '.unpack_attribute')
    pn = model.func(MPR + '._parse_nexthop_and_nlris')
    run.analysed(ua)
    run.analysed(pn)
    (ca, oa), (cb, ob) = offsets(ua), offsets(pn)
    run.check(oa == ob == ['=3', '+=1', '+=byte[cursor]', '+=1'], MPR, 'validator offsets %s / lazy parser offsets %s' % (oa, ob), pn.loc(), 'RFC 4760 3: AFI(2) SAFI(1) next-hop length(1) next hop reserved(1) NLRI; the lazy parser must skip what the validator checked')
    # next hop bytes: the function is evaluated on the MP_REACH of five families (the address after the all-zero RD, the first
    # of a global / link-local pair, none for flowspec), however the slice is written
    from ..evalfn import eval_function

    pl = Loc(model, pn)
    v4, g6, l6 = bytes([10, 0, 0, 1]), bytes([0x20, 1, 0xD, 0xB8] + [0] * 11 + [1]), bytes([0xFE, 0x80] + [0] * 13 + [2])
    cases = [
        ('ipv4 unicast', 1, 1, v4, v4),
        ('ipv6 unicast, global + link-local', 2, 1, g6 + l6, g6),
        ('ipv4 mpls-vpn', 1, 128, bytes(8) + v4, v4),
        ('ipv6 mpls-vpn', 2, 128, bytes(8) + g6, g6),
        ('ipv4 flow', 1, 133, b'', None),
    ]
    rets = [r for r in walk_no_nested(pn.node) if isinstance(r, ast.Return) and isinstance(r.value, ast.Tuple) and r.value.elts]
    ok_nh = bool(rets)
    got_txt = []
    for label, afi, safi, nh, want in cases:
        packed = afi.to_bytes(2, 'big') + bytes([safi, len(nh)]) + nh + b'\x00' + bytes([24, 192, 0, 2])
        env: dict = {}
        eval_function(folder, pn, {'self': {'afi': afi, 'safi': safi, '_packed': packed, '_addpath': False}}, env_out=env, outcomes=True)
        got = folder.fold(rets[0].value.elts[0], pn.module, pn.cls, env) if rets else UNKNOWN
        got_txt.append('%s: %s' % (label, got.hex() if isinstance(got, bytes) else got))
        ok_nh = ok_nh and got is not UNKNOWN and got == want
    run.check(ok_nh, pn.qualname, 'next hop = bytes after the RD-sized prefix, RD size from Family.size of the attribute own family (%s)' % ('; '.join(got_txt) if not ok_nh else '5 cases'), pn.loc(), 'the next hop of a VPN family follows an 8-byte zero RD')

    # ------------------------------------------------------------------ R3 zero-length negative slice
    run.rule('C02.R3', 'no `x[:-n]` with a variable n that may be 0 in the AS_PATH/AS4_PATH merge (x[:-0] is empty, not x)', floor=1)
    mg = model.func(AC + '.merge_attributes')
    run.analysed(mg)
    n_sl = 0
    for n in walk_no_nested(mg.node):
        if isinstance(n, ast.Subscript) and isinstance(n.slice, ast.Slice) and n.slice.upper is not None:
            up = n.slice.upper
            if isinstance(up, ast.UnaryOp) and isinstance(up.op, ast.USub) and not isinstance(up.operand, ast.Constant):
                n_sl += 1
                g = flat_guards(mg.node, n)
                nm = dotted(up.operand) or ''
                proven = any((norm(t) in (nm, '%s > 0' % nm, '%s >= 1' % nm) and pol) or (norm(t) in ('not %s' % nm, '%s == 0' % nm) and not pol) for t, pol in g)
                if not proven:
                    run.violation(
                        mg.qualname,
                        '%s with %s possibly 0' % (norm(n), nm),
                        mg.loc(n),
                        'when %s is 0 the slice [:-0] is empty: AS_PATH (1 2) {9} merged with an AS4_PATH holding no segment of '
                        'that kind loses the ASNs instead of keeping them (RFC 6793 4.2.3)' % nm,
                    )
                else:
                    run.ok('merge_attributes: %s' % norm(n), 'guarded')
    if n_sl == 0:
        run.ok('merge_attributes', 'no negative variable slice')
    # a slice of the sequence (set) part is measured with the lengths of the sequence (set) parts
    from ..labels import ReachDefs

    rd = ReachDefs(mg.node)
    by_id = {id(st): st for st in ast.walk(mg.node)}
    for n in walk_no_nested(mg.node):
        if not (isinstance(n, ast.Subscript) and isinstance(n.slice, ast.Slice) and isinstance(n.value, ast.Attribute) and n.value.attr in ('as_seq', 'as_set') and n.slice.upper is not None):
            continue
        kind = n.value.attr
        measured = set()
        understood = True
        for nm in [x for x in ast.walk(n.slice.upper) if isinstance(x, ast.Name)]:
            ids = rd.reaching(nm.id, n) or frozenset()
            for i in ids:
                st = by_id.get(i)
                v = getattr(st, 'value', None)
                if isinstance(v, ast.Call) and dotted(v.func) == 'len' and v.args and isinstance(v.args[0], ast.Attribute):
                    measured.add(v.args[0].attr)
                else:
                    understood = False
        for c in ast.walk(n.slice.upper):
            if isinstance(c, ast.Call) and dotted(c.func) == 'len' and c.args and isinstance(c.args[0], ast.Attribute):
                measured.add(c.args[0].attr)
        if not understood or not measured:
            continue
        run.check(measured == {kind}, mg.qualname, 'slice of .%s bounded by the lengths of %s' % (kind, sorted('.' + m for m in measured)), mg.loc(n), 'RFC 6793 4.2.3: the leading ASNs kept from AS_PATH are counted per segment kind; cutting the AS_SET with the AS_SEQUENCE lengths keeps AS_TRANS placeholders or drops members')

    # ------------------------------------------------------------------ R4 next hop attribution
    run.rule('C02.R4', 'next hop attribution: routes of the NLRI section get the NEXT_HOP attribute of the same UPDATE; MP_REACH routes get the next hop bytes of that attribute', floor=2)
    rn = [c for c in walk_no_nested(pp.node) if isinstance(c, ast.Call) and model.call_matches(mod, c, 'RoutedNLRI')]
    ok = bool(rn)
    for c in rn:
        if len(c.args) < 2:
            ok = False
            continue
        l0, l1 = lf.of(c.args[0]), lf.of(c.args[1])
        # the route comes from the NLRI section, the next hop from the NEXT_HOP attribute (or is the NoNextHop constant)
        ok = ok and routes(l0) == {'A.sec'} and not routes(l1) and ('NH' in l1 or (dotted(c.args[1]) or '').endswith('NoNextHop'))
    run.check(ok, pp.qualname, 'RoutedNLRI(<route of the NLRI section>, <NEXT_HOP attribute of this UPDATE>)', pp.loc(rn[0]) if rn else pp.loc(), 'IPv4 NLRI-section routes take the NEXT_HOP attribute')
    ir = model.func(MPR + '.iter_routed')
    run.analysed(ir)

    def iseed_unpack(value: ast.AST, i: int) -> tuple[str, ...]:
        if isinstance(value, ast.Call) and model.call_matches(ir.module, value, 'MPRNLRI._parse_nexthop_and_nlris'):
            return (('NH',), ('N',))[i] if i < 2 else ()
        return ()

    irf = LabelFlow(ir.node, lambda e: (), iseed_unpack)
    rn2 = [c for c in walk_no_nested(ir.node) if isinstance(c, ast.Call) and model.call_matches(ir.module, c, 'RoutedNLRI')]
    ok = bool(rn2) and all(len(c.args) >= 2 and irf.of(c.args[0]) == {'N'} and irf.of(c.args[1]) <= {'NH'} for c in rn2)
    nhu = model.calls_to(ir.module, ir.node, 'NextHop.unpack_attribute')
    ok = ok and bool(nhu) and all(c.args and irf.of(c.args[0]) == {'NH'} for c in nhu)
    run.check(ok, ir.qualname, 'RoutedNLRI(nlri, next hop parsed from this MP_REACH)', ir.loc(), 'MP_REACH routes take the next hop of their own attribute')

    # the next hop reported for MP_REACH is the FIRST address of the field (RFC 2545: global, then link-local)
    prets = [r for r in walk_no_nested(pn.node) if isinstance(r, ast.Return) and isinstance(r.value, ast.Tuple) and len(r.value.elts) == 2]
    ok_first = False
    why = 'definition of the returned next hop not understood'
    nb_node: ast.AST | None = prets[-1] if prets else None
    if prets:
        v = pl.resolve(prets[-1].value.elts[0])
        if isinstance(v, ast.IfExp):
            v = v.body
        if isinstance(v, ast.Subscript) and not isinstance(v.slice, ast.Slice):
            idx = folder.fold(v.slice, pn.module)
            chunks = pl.resolve(v.value)
            ok_first = idx == 0 and amatch('[V_b[V_p:V_p + 16] for V_p in range(0, len(V_b), 16)]', chunks) is not None
            why = 'element %s of the 16-byte chunks' % idx
        elif isinstance(v, ast.Subscript) and isinstance(v.slice, ast.Slice):
            lo = folder.fold(v.slice.lower, pn.module) if v.slice.lower is not None else 0
            ok_first = lo == 0
            why = 'slice %s' % norm(v)
    run.check(ok_first, pn.qualname, 'next hop = first address of the next-hop field (%s)' % why, pn.loc(nb_node) if nb_node is not None else pn.loc(), 'with a 32-byte IPv6 next hop (global + link-local, RFC 2545) the route next hop is the global address, i.e. the first 16 bytes')

    # what is stored in the Adj-RIB-In: each announced entry goes in with ITS OWN next hop
    for hq in ('exabgp.reactor.peer.handlers.update.UpdateHandler.handle', 'exabgp.reactor.peer.handlers.update.UpdateHandler.handle_async'):
        hf = model.funcs.get(hq)
        if hf is None:
            run.cannot('%s vanished' % hq)
            continue
        run.analysed(hf)
        hl = Loc(model, hf)
        hpm = parent_map(hf.node)
        rcalls = [c for c in walk_no_nested(hf.node) if isinstance(c, ast.Call) and any(t.endswith('rib.route.Route') or t.endswith('rib.route.Route.__init__') for t in model.callees(hf.module, c))]
        okr = bool(rcalls)
        detail = ''
        for c in rcalls:
            nh = next((k.value for k in c.keywords if k.arg == 'nexthop'), c.args[2] if len(c.args) > 2 else None)
            loop = None
            cur: ast.AST | None = c
            while cur is not None and loop is None:
                cur = hpm.get(id(cur))
                if isinstance(cur, (ast.For, ast.AsyncFor)) and 'announces' in hl.expand(cur.iter):
                    loop = cur
            if nh is None or loop is None or not isinstance(loop.target, ast.Name):
                okr = False
                detail = 'Route(...) outside a loop over the announced entries, or without next hop'
                continue
            v = loop.target.id

            def in_loop(e: ast.AST | None, loop=loop, v=v) -> str:  # noqa: ANN001
                # a local bound once inside the loop body stands for its value
                if isinstance(e, ast.Name) and e.id != v:
                    ds = [n.value for n in ast.walk(loop) if isinstance(n, ast.Assign) and len(n.targets) == 1 and isinstance(n.targets[0], ast.Name) and n.targets[0].id == e.id]
                    if len(ds) == 1:
                        return in_loop(ds[0])
                return hl.expand(e, keep=[v]) if e is not None else ''

            got_nh, got_nlri = in_loop(nh), in_loop(c.args[0] if c.args else None)
            detail = 'Route(%s, ..., nexthop=%s)' % (got_nlri, got_nh)
            okr = okr and got_nh == v + '.nexthop' and got_nlri == v + '.nlri'
        run.check(okr, hq, 'every announced entry is stored with its own route and next hop (%s)' % detail, hf.loc(rcalls[0]) if rcalls else hf.loc(), 'the Adj-RIB-In entry must carry the next hop decoded for THAT route: the NEXT_HOP attribute for the NLRI section, the MP_REACH next hop for MP routes; taking one next hop for the whole UPDATE stores MP routes with the IPv4 NEXT_HOP')

    # ------------------------------------------------------------------ R6 decode uses the RECEIVE direction of ADD-PATH
    run.rule('C02.R6', 'decoding uses the receive direction of ADD-PATH: the flag handed to the NLRI decoders comes from Negotiated.required(afi, safi) (IN -> receive); no decode-side function reads RequirePath.send', floor=3)
    for qn in (MPR + '.unpack_attribute', MPU + '.unpack_attribute', UC + '._parse_payload'):
        f = model.func(qn)
        run.analysed(f)
        fl = Loc(model, f)
        names = fl.from_call('Negotiated.required')
        ad = [v for nm in names for v in fl.values(nm)]
        ok = len(names) == 1 and len(ad) == 1
        sends = model.calls_to(f.module, f.node, 'RequirePath.send')
        run.check(ok and not sends, qn, 'ADD-PATH flag = %s' % (norm(ad[0]) if ad else None), f.loc(ad[0]) if ad else f.loc(), 'a path identifier is present in received NLRIs iff ADD-PATH RECEIVE was negotiated for the family; the send direction is for encoding only')
        if ok:
            # ... and it is what the decoders / the lazy attribute get
            users = [c for c in walk_no_nested(f.node) if isinstance(c, ast.Call) and (model.call_matches(f.module, c, 'NLRI.unpack_nlri') or (qn != UC + '._parse_payload' and isinstance(c.func, ast.Name) and c.func.id == 'cls'))]
            run.check(bool(users) and all(any(isinstance(a, ast.Name) and a.id == names[0] for a in c.args) for c in users), qn, 'the flag is handed to %d decoder / constructor call(s)' % len(users), f.loc(users[0]) if users else f.loc(), 'the decoders must be told whether a path identifier precedes each NLRI')
        if qn != UC + '._parse_payload' and ad:
            args = [fl.resolve(a) for a in ad[0].args] if isinstance(ad[0], ast.Call) else []
            fam = len(args) == 2 and isinstance(args[0], ast.Call) and model.call_matches(f.module, args[0], 'AFI.from_int') and isinstance(args[1], ast.Call) and model.call_matches(f.module, args[1], 'SAFI.from_int')
            run.check(fam, qn, 'for the family of the attribute (%s)' % ', '.join(norm(a) for a in args), f.loc(ad[0]), 'ADD-PATH is negotiated per family')
    req = model.func('exabgp.bgp.message.open.capability.negotiated.Negotiated.required')
    from .C07 import required_maps_directions

    okr = required_maps_directions(model, req)
    run.check(okr, req.qualname, 'IN -> receive, otherwise send', req.loc(), 'Negotiated.required maps the session direction to the ADD-PATH direction')
    pinit = model.func('exabgp.reactor.protocol.Protocol.__init__')
    run.check('Negotiated.make_negotiated(self.neighbor, Direction.IN)' in norm(pinit.node), pinit.qualname, 'the protocol negotiated object has Direction.IN', pinit.loc(), 'the decoder side must be IN')

    # ------------------------------------------------------------------ R5 AS4 merge packs 4 bytes
    run.rule('C02.R5', 'the path built by merging AS_PATH and AS4_PATH is packed 4 bytes wide (it may hold 4-byte ASNs)', floor=1)
    mk = [c for c in walk_no_nested(mg.node) if isinstance(c, ast.Call) and isinstance(c.func, ast.Attribute) and c.func.attr == 'make_aspath']
    if not mk:
        run.cannot('make_aspath call not found in merge_attributes')
    for c in mk:
        wide = None
        for k in c.keywords:
            if k.arg == 'asn4':
                wide = folder.fold(k.value, mg.module)
        if len(c.args) >= 2:
            wide = folder.fold(c.args[1], mg.module)
        if wide is None:
            # default of the resolved callee
            for cal in model.callees(mg.module, c):
                f = model.funcs.get(cal)
                if f is not None:
                    args = f.node.args
                    names = [a.arg for a in args.args]
                    if 'asn4' in names:
                        i = names.index('asn4') - (len(names) - len(args.defaults))
                        if 0 <= i < len(args.defaults):
                            wide = folder.fold(args.defaults[i], f.module)
        run.check(
            wide is True,
            mg.qualname,
            '%s packs the merged path with asn4=%s' % (norm(c)[:60], wide),
            mg.loc(c),
            'the merged path contains the 4-byte ASNs of AS4_PATH; packed 2 bytes wide ASN.pack_asn raises struct.error for '
            'AS_PATH (23456 2) + AS4_PATH (70000 2) from a 2-byte peer, which the reactor turns into NOTIFICATION 1/0',
        )

    # ------------------------------------------------------------------ R7 the shared cached collection keeps its routes
    run.rule('C02.R7', 'the attribute collection served again from the one-entry block cache still holds what _parse_payload takes out of it: a block carrying MP_REACH / MP_UNREACH is never cached (shared with C19.R1b)', floor=1)
    from .C19 import cache_guard_rule

    cache_guard_rule(model, run, folder)

    # ------------------------------------------------------------------ R8 flag tests can succeed
    run.rule(
        'C02.R8',
        'every bit test on the decode path can succeed: the constants AND-ed with a value in a condition (attribute flags, '
        'capability bits) do not cancel each other - OPTIONAL & TRANSITIVE is 0, so `flag & OPTIONAL & TRANSITIVE` never holds '
        'and the branch it guards (stripping the Partial bit before the registry lookup) is dead',
        floor=6,
    )
    from .C03 import decode_reachable

    dec = decode_reachable(model, CallGraph(model))
    n8 = 0
    for q in sorted(dec):
        f = model.funcs[q]
        pm8 = parent_map(f.node)
        for b in walk_no_nested(f.node):
            if not (isinstance(b, ast.BinOp) and isinstance(b.op, ast.BitAnd)):
                continue
            par = pm8.get(id(b))
            if isinstance(par, ast.BinOp) and isinstance(par.op, ast.BitAnd):
                continue  # not the top of the chain
            ops: list[ast.AST] = []
            stack: list[ast.AST] = [b]
            while stack:
                x = stack.pop()
                if isinstance(x, ast.BinOp) and isinstance(x.op, ast.BitAnd):
                    stack += [x.right, x.left]
                else:
                    ops.append(x)
            consts = [v for v in (folder.fold(o, f.module, f.cls) for o in ops) if isinstance(v, int) and not isinstance(v, bool)]
            if not consts or len(consts) == len(ops):
                continue
            # used as a condition (if / while / conditional expression / and-or / not)?
            cond = False
            cur: ast.AST = b
            while True:
                p_ = pm8.get(id(cur))
                if isinstance(p_, (ast.If, ast.While, ast.IfExp)) and p_.test is cur:
                    cond = True
                if isinstance(p_, (ast.BoolOp, ast.UnaryOp)) and not cond:
                    cur = p_
                    continue
                break
            if not cond:
                continue
            n8 += 1
            mask = -1
            for c in consts:
                mask &= c
            run.check(
                mask != 0,
                q,
                'bit test %s can succeed (mask 0x%X)' % (norm(b)[:60], mask & 0xFFFFFFFF),
                f.loc(b),
                'the constants of this test AND to 0, so it is false for every value: the branch it guards never runs (for the '
                'Partial-bit strip in AttributeCollection.parse: an optional transitive attribute that crossed a speaker which '
                'did not recognise it keeps the Partial bit, fails the registry lookup and its routes are reported as withdrawn)',
            )
    if n8 < 6:
        run.cannot('only %d bit tests found on the decode path' % n8)

    # ------------------------------------------------------------------ R9 End-of-RIB family
    run.rule(
        'C02.R9',
        'End-of-RIB for the right family: Update.unpack_message answers the IPv4 unicast marker (a constant family) only for '
        'the 4 zero octets, or after it looked for an MP_UNREACH_NLRI / MP_REACH_NLRI in the attributes of the same message '
        'and answered THEIR family (the marker `80 0f 03 AFI SAFI`, one-octet attribute length, is not caught by the fast path)',
        floor=2,
    )
    _r9_eor_family(model, run, folder)

    # ------------------------------------------------------------------ R10 a prefix withdrawn and announced by one UPDATE
    run.rule(
        'C02.R10',
        'RFC 4271 4.3: an UPDATE that both withdraws and announces a prefix is processed as though it did not withdraw it - in '
        'UpdateHandler.handle and handle_async no removal from the Adj-RIB-In (update_cache_withdraw) can run after a store '
        '(update_cache) of the same message',
        floor=2,
    )
    from ..cfg import CFG

    for hn in ('handle', 'handle_async'):
        hf = model.func(UH + '.' + hn)
        run.analysed(hf)
        stores = model.calls_to(hf.module, hf.node, 'Cache.update_cache', 'IncomingRIB.update_cache')
        removes = model.calls_to(hf.module, hf.node, 'Cache.update_cache_withdraw', 'IncomingRIB.update_cache_withdraw')
        if not stores or not removes:
            run.cannot('%s: the store / removal calls of the Adj-RIB-In were not found (%d, %d)' % (hf.qualname, len(stores), len(removes)))
            continue
        cfg = CFG(hf.node)
        after: set[int] = set()
        for sc in stores:
            sn = cfg.stmt_node_containing(sc)
            if sn is not None:
                after |= cfg.reachable(sn.id) - {sn.id}
        late = []
        for r in removes:
            rn = cfg.stmt_node_containing(r)
            if rn is None:
                run.cannot('%s: removal call not located in the flow graph' % hf.qualname)
            elif rn.id in after:
                late.append(r)
        run.check(not late, hf.qualname, 'withdraws are applied before the announces are stored', hf.loc(late[0]) if late else hf.loc(removes[0]), 'the removal runs after the store: a prefix the UPDATE lists in both WITHDRAWN ROUTES and NLRI is stored, then removed, and is missing from the Adj-RIB-In although the peer announced it')


def _r9_eor_family(model: Model, run: Run, folder: Folder) -> None:
    um = model.func('exabgp.bgp.message.update.Update.unpack_message')
    run.analysed(um)
    ul = Loc(model, um)
    dparam = um.node.args.args[1].arg if len(um.node.args.args) > 1 else 'data'
    rets = [r for r in walk_no_nested(um.node) if isinstance(r, ast.Return) and isinstance(r.value, ast.Call) and model.call_matches(um.module, r.value, 'EOR') and len(r.value.args) == 2]
    const = [r for r in rets if folder.fold(r.value.args[0], um.module, um.cls) == 1 and folder.fold(r.value.args[1], um.module, um.cls) == 1]
    if not const:
        run.cannot('Update.unpack_message: no `return EOR(AFI.ipv4, SAFI.unicast)` found')
        return
    # returns answering the family of an MP attribute object of this message
    mp = []
    for r in rets:
        a0, a1 = r.value.args
        if isinstance(a0, ast.Attribute) and isinstance(a1, ast.Attribute) and a0.attr == 'afi' and a1.attr == 'safi' and isinstance(a0.value, ast.Name) and norm(a0.value) == norm(a1.value):
            src = ' '.join(norm(v) for v in ul.values(a0.value.id))
            kind = 'unreach' if 'MPURNLRI' in src else 'reach' if 'MPRNLRI' in src else None
            if kind:
                mp.append((kind, r))
    top = {id(n): st for st in um.node.body for n in ast.walk(st)}
    for r in const:
        zero = False
        for t, pol in flat_guards(um.node, r):
            for c in ast.walk(t):
                if pol and isinstance(c, ast.Compare) and len(c.ops) == 1 and isinstance(c.ops[0], ast.Eq) and dparam in (norm(c.left), norm(c.comparators[0])):
                    other = c.comparators[0] if norm(c.left) == dparam else c.left
                    zero = zero or folder.fold(other, um.module, um.cls) == b'\x00\x00\x00\x00'
        if zero:
            run.ok('unpack_message: IPv4 unicast End-of-RIB for the 4 zero octets', um.loc(r))
            continue
        before = {k for k, m in mp if m.lineno < r.lineno and top.get(id(m)) is top.get(id(r))}
        run.check('unreach' in before, um.qualname, 'IPv4 unicast End-of-RIB answered after looking for MP attributes (%s)' % (sorted(before) or 'none looked for'), um.loc(r), 'an UPDATE that decodes to nothing may be the End-of-RIB of another family written `80 0f 03 AFI SAFI` (one-octet attribute length, what other implementations emit): its MP_UNREACH_NLRI names the family; answering ipv4 unicast reports the marker for the wrong family')
