"""C02 — reported routes are exactly what the peer sent.  DESIGN.md 3/C02."""

from __future__ import annotations

import ast
import copy

from ..const import UNKNOWN, Folder
from ..flow import Slicer, flat_guards, parent_map
from ..model import FuncInfo, Model, dotted, norm, walk_no_nested
from ..report import Run
from .common import CallGraph, short

UC = 'exabgp.bgp.message.update.collection.UpdateCollection'
AC = 'exabgp.bgp.message.update.attribute.collection.AttributeCollection'
MPR = 'exabgp.bgp.message.update.attribute.mprnlri.MPRNLRI'
MPU = 'exabgp.bgp.message.update.attribute.mpurnlri.MPURNLRI'
UH = 'exabgp.reactor.peer.handlers.update.UpdateHandler'


# ---------------------------------------------------------------------------------------------- sibling normal form
class _Normalise(ast.NodeTransformer):
    def visit_Await(self, node: ast.Await) -> ast.AST:
        return self.visit(node.value)

    def visit_AsyncFor(self, node: ast.AsyncFor) -> ast.AST:
        n = ast.For(target=node.target, iter=node.iter, body=node.body, orelse=node.orelse, type_comment=None)
        return self.generic_visit(ast.copy_location(n, node))

    def visit_AsyncWith(self, node: ast.AsyncWith) -> ast.AST:
        n = ast.With(items=node.items, body=node.body, type_comment=None)
        return self.generic_visit(ast.copy_location(n, node))


def normal_form(fn: ast.AST) -> list[str]:
    """Statements of a function body: awaits stripped, docstrings / logging / trailing `return; yield` plumbing removed."""
    body = copy.deepcopy(list(fn.body))  # type: ignore[attr-defined]
    out: list[str] = []

    def is_log(st: ast.stmt) -> bool:
        return isinstance(st, ast.Expr) and isinstance(st.value, ast.Call) and (dotted(st.value.func) or '').startswith('log.')

    def clean(stmts: list[ast.stmt]) -> list[ast.stmt]:
        res = []
        for st in stmts:
            if isinstance(st, ast.Expr) and isinstance(st.value, ast.Constant) and isinstance(st.value.value, str):
                continue
            if is_log(st):
                continue
            if isinstance(st, ast.Expr) and isinstance(st.value, (ast.Yield,)) and st.value.value is None:
                continue
            if isinstance(st, ast.Return) and st.value is None:
                continue
            for f in ('body', 'orelse', 'finalbody'):
                if hasattr(st, f) and isinstance(getattr(st, f), list):
                    setattr(st, f, clean(getattr(st, f)) or [ast.Pass()])
            res.append(st)
        return res

    for st in clean(body):
        st = _Normalise().visit(st)
        ast.fix_missing_locations(st)
        out.append(norm(st))
    return out


def first_difference(a: list[str], b: list[str]) -> tuple[int, str, str] | None:
    for i in range(max(len(a), len(b))):
        x = a[i] if i < len(a) else '<missing>'
        y = b[i] if i < len(b) else '<missing>'
        if x != y:
            return i, x, y
    return None


def check(model: Model, run: Run) -> None:
    folder = Folder(model)
    pp = model.func(UC + '._parse_payload')
    run.analysed(pp)
    mod = pp.module

    # ------------------------------------------------------------------ R1 label flow
    run.rule(
        'C02.R1',
        'announce/withdraw label flow in _parse_payload: NLRIs cut from the withdrawn section and MP_UNREACH reach only the '
        'withdraws list, those from the trailing NLRI section and MP_REACH only the announces list; the Action passed to the '
        'decoder agrees; the lists are passed to UpdateCollection at the positions of the parameters of the same name; the '
        'only filter on the way is `is not NLRI.INVALID`; JSON/text renderers and the Adj-RIB-In handler read the matching list',
        floor=8,
    )
    # split() order
    split = model.func(UC + '.split')
    rets = [r for r in walk_no_nested(split.node) if isinstance(r, ast.Return) and isinstance(r.value, ast.Tuple)]
    order = [dotted(e) for e in rets[-1].value.elts] if rets else []
    run.check(order == ['withdrawn', 'attributes', 'announced'], split.qualname, 'split returns %s' % order, split.loc(), 'RFC 4271 4.3: withdrawn routes, path attributes, NLRI - in this order')
    # what split() cuts
    stxt = norm(split.node)
    # tuple unpacking in _parse_payload
    sect: dict[str, str] = {}
    for n in walk_no_nested(pp.node):
        if isinstance(n, ast.Assign) and isinstance(n.targets[0], ast.Tuple) and isinstance(n.value, ast.Call) and model.call_matches(mod, n.value, 'UpdateCollection.split'):
            names = [dotted(e) for e in n.targets[0].elts]
            if len(names) == 3:
                sect[names[0]] = 'W'
                sect[names[2]] = 'A'
                sect[names[1]] = 'attr'
    if not sect:
        run.cannot('split() unpacking not found in _parse_payload')
        return
    sl = Slicer(model, pp)

    def label_of(name: str, seen: set[str] | None = None) -> str | None:
        seen = seen or set()
        if name in sect:
            return sect[name]
        if name in seen:
            return None
        seen.add(name)
        labs = set()
        for v, _ in sl.defs.get(name, []):
            # only the initial binding counts: a plain copy/conversion of a section (the rebinding to the rest
            # returned by the decoder keeps the label)
            if isinstance(v, ast.Call) and isinstance(v.func, ast.Name) and v.func.id in ('bytes', 'memoryview', 'bytearray') and len(v.args) == 1 and isinstance(v.args[0], ast.Name):
                l = label_of(v.args[0].id, seen)
                if l in ('W', 'A'):
                    labs.add(l)
        return labs.pop() if len(labs) == 1 else None

    # the constructor call
    ctor = [c for r in walk_no_nested(pp.node) if isinstance(r, ast.Return) and isinstance(r.value, ast.Call) and isinstance(r.value.func, ast.Name) and r.value.func.id == 'cls' for c in [r.value]]
    if len(ctor) != 1 or len(ctor[0].args) < 3:
        run.cannot('return cls(announces, withdraws, attributes) not found')
        return
    init = model.func(UC + '.__init__')
    params = [a.arg for a in init.node.args.args][1:4]
    args = [dotted(a) for a in ctor[0].args[:3]]
    run.check(params == ['announces', 'withdraws', 'attributes'] and args == params, pp.qualname, 'cls(%s) matches parameters %s' % (', '.join(map(str, args)), params), pp.loc(ctor[0]), 'the announce and withdraw lists must not be swapped on the way into UpdateCollection')
    list_of = {'A': args[0], 'W': args[1]}
    # stores in __init__
    stores = {}
    for n in walk_no_nested(init.node):
        if isinstance(n, (ast.Assign, ast.AnnAssign)):
            tg = n.targets[0] if isinstance(n, ast.Assign) else n.target
            if n.value is not None:
                stores[dotted(tg)] = dotted(n.value)
    run.check(stores.get('self._announces') == 'announces' and stores.get('self._withdraws') == 'withdraws', init.qualname, 'stores each list under its own name', init.loc(), '__init__ must keep announces and withdraws apart')
    # decoder calls
    calls = model.calls_to(mod, pp.node, 'NLRI.unpack_nlri')
    if len(calls) != 2:
        run.cannot('expected 2 NLRI.unpack_nlri calls in _parse_payload, found %d' % len(calls))
    pm = parent_map(pp.node)
    for c in calls:
        if len(c.args) < 4:
            continue
        buf = dotted(c.args[2]) or ''
        lab = label_of(buf)
        act = (dotted(c.args[3]) or '').rsplit('.', 1)[-1]
        want_act = {'W': 'WITHDRAW', 'A': 'ANNOUNCE'}.get(lab or '', '?')
        afi_ok = norm(c.args[0]) == 'AFI.ipv4' and norm(c.args[1]) == 'SAFI.unicast'
        run.check(lab in ('W', 'A') and act == want_act and afi_ok, pp.qualname, 'decoder of the %s section gets Action.%s, ipv4 unicast' % ({'W': 'withdrawn', 'A': 'NLRI'}.get(lab or '', '?'), act), pp.loc(c), 'the %s section holds %s routes of ipv4 unicast' % (buf, want_act.lower()))
        # where does the decoded nlri go?
        loop = pm.get(id(c))
        while loop is not None and not isinstance(loop, ast.While):
            loop = pm.get(id(loop))
        sinks = []
        filters = []
        if loop is not None:
            for x in walk_no_nested(loop):
                if isinstance(x, ast.Call) and isinstance(x.func, ast.Attribute) and x.func.attr in ('append', 'extend') and isinstance(x.func.value, ast.Name):
                    sinks.append((x.func.value.id, x))
                    for t, pol in flat_guards(pp.node, x):
                        if not (loop.lineno <= t.lineno <= (loop.end_lineno or 0)):
                            continue
                        if t is loop.test:
                            continue
                        filters.append((norm(t), pol))
        names = {s for s, _ in sinks}
        run.check(names == {list_of.get(lab or '', '?')}, pp.qualname, '%s-section NLRIs are appended to %s' % (lab, sorted(names)), pp.loc(c), 'routes of the %s section must end in `%s`' % ({'W': 'withdrawn', 'A': 'NLRI'}.get(lab or '', '?'), list_of.get(lab or '', '?')))
        allowed = lambda t, pol: (t == 'nlri is not NLRI.INVALID' and pol) or t.startswith('isinstance(nexthop') or t.startswith('len(packed) ==')  # noqa: E731
        bad = [(t, pol) for t, pol in filters if not allowed(t, pol)]
        run.check(not bad, pp.qualname, 'only the INVALID filter stands between the %s decoder and its list' % lab, pp.loc(c), 'a decoded route is dropped under %s' % bad)
    # MP attributes
    mp = {}
    for n in walk_no_nested(pp.node):
        if isinstance(n, ast.Assign) and isinstance(n.targets[0], ast.Name) and isinstance(n.value, ast.Call) and isinstance(n.value.func, ast.Attribute) and n.value.func.attr in ('pop', 'get') and n.value.args:
            k = dotted(n.value.args[0]) or ''
            if k.startswith('MPURNLRI'):
                mp[n.targets[0].id] = 'W'
            elif k.startswith('MPRNLRI'):
                mp[n.targets[0].id] = 'A'
    for x in walk_no_nested(pp.node):
        if isinstance(x, ast.Call) and isinstance(x.func, ast.Attribute) and x.func.attr == 'extend' and isinstance(x.func.value, ast.Name) and x.args:
            srcs = {n.id for n in ast.walk(x.args[0]) if isinstance(n, ast.Name)} & set(mp)
            if not srcs:
                continue
            lab = mp[srcs.pop()]
            run.check(x.func.value.id == list_of[lab], pp.qualname, 'MP_%s routes extend %s' % ('UNREACH' if lab == 'W' else 'REACH', x.func.value.id), pp.loc(x), 'MP_REACH routes are announcements, MP_UNREACH routes are withdrawals')
            if lab == 'A':
                run.check(isinstance(x.args[0], ast.Call) and model.call_matches(mod, x.args[0], 'MPRNLRI.iter_routed'), pp.qualname, 'MP_REACH routes carry their own next hop (iter_routed)', pp.loc(x), 'MP_REACH routes must come with the next hop of that attribute')
    if set(mp.values()) != {'W', 'A'}:
        run.cannot('MP_REACH / MP_UNREACH extraction not found in _parse_payload')
    # MP decoders use the right Action
    gen = model.funcs.get(MPR + '._parse_nexthop_and_nlris.nlri_generator')
    if gen is not None:
        cs = model.calls_to(gen.module, gen.node, 'NLRI.unpack_nlri')
        run.check(bool(cs) and all((dotted(c.args[3]) or '').endswith('ANNOUNCE') for c in cs), gen.qualname, 'MP_REACH NLRIs decoded with Action.ANNOUNCE', gen.loc(), 'MP_REACH carries reachable routes')
    mit = model.func(MPU + '.__iter__')
    cs = model.calls_to(mit.module, mit.node, 'NLRI.unpack_nlri')
    run.check(bool(cs) and all((dotted(c.args[3]) or '').endswith('WITHDRAW') for c in cs), mit.qualname, 'MP_UNREACH NLRIs decoded with Action.WITHDRAW', mit.loc(), 'MP_UNREACH carries unreachable routes')
    # renderers / handler
    ju = model.func('exabgp.reactor.api.response.json.JSON._update')
    run.analysed(ju)
    jt = norm(ju.node)
    ok = 'for routed in update_msg.announces' in jt and 'for nlri in update_msg.withdraws' in jt
    fa = [n for n in walk_no_nested(ju.node) if isinstance(n, ast.For)]
    feed = {}
    for f in fa:
        src = dotted(f.iter) or ''
        for x in walk_no_nested(f):
            if isinstance(x, ast.Call) and isinstance(x.func, ast.Attribute) and x.func.attr in ('setdefault',) and isinstance(x.func.value, ast.Name):
                feed.setdefault(src, set()).add(x.func.value.id)
    ok = ok and feed.get('update_msg.announces') == {'plus'} and feed.get('update_msg.withdraws') == {'minus'}
    run.check(ok, ju.qualname, 'announces feed `plus`, withdraws feed `minus`', ju.loc(), 'JSON must report announces as announce and withdraws as withdraw')
    keys_ok = False
    for n in walk_no_nested(ju.node):
        if isinstance(n, ast.If) and dotted(n.test) == 'add':
            keys_ok = any('"announce"' in norm(s) for s in n.body)
    keys_ok2 = False
    for n in walk_no_nested(ju.node):
        if isinstance(n, ast.If) and dotted(n.test) == 'remove':
            keys_ok2 = any('"withdraw"' in norm(s) for s in n.body)
    add_from_plus = any(isinstance(n, ast.For) and dotted(n.iter) == 'plus' and any('add.append' in norm(s) for s in n.body) for n in walk_no_nested(ju.node))
    rem_from_minus = any(isinstance(n, ast.For) and dotted(n.iter) == 'minus' and any('remove.append' in norm(s) for s in n.body) for n in walk_no_nested(ju.node))
    run.check(keys_ok and keys_ok2 and add_from_plus and rem_from_minus, ju.qualname, '"announce" is built from plus, "withdraw" from minus', ju.loc(), 'the JSON keys must match the lists they render')
    for name in ('handle', 'handle_async'):
        h = model.func(UH + '.' + name)
        run.analysed(h)
        pairs = {}
        for f in walk_no_nested(h.node):
            if isinstance(f, ast.For):
                src = (dotted(f.iter) or '').rsplit('.', 1)[-1]
                for c in walk_no_nested(f):
                    if isinstance(c, ast.Call) and isinstance(c.func, ast.Attribute) and c.func.attr in ('update_cache', 'update_cache_withdraw'):
                        pairs.setdefault(src, set()).add(c.func.attr)
        run.check(pairs == {'announces': {'update_cache'}, 'withdraws': {'update_cache_withdraw'}}, h.qualname, 'Adj-RIB-In: %s' % {k: sorted(v) for k, v in pairs.items()}, h.loc(), 'announces are stored, withdraws removed')

    # ------------------------------------------------------------------ R2 siblings
    run.rule('C02.R2', 'sibling agreement: UpdateHandler.handle and handle_async are the same in normal form; MPRNLRI.unpack_attribute and _parse_nexthop_and_nlris walk the same offsets (3, +1 next-hop length, +len_nh, +1 reserved)', floor=2)
    a = normal_form(model.func(UH + '.handle').node)
    b = normal_form(model.func(UH + '.handle_async').node)
    d = first_difference(a, b)
    run.check(d is None, UH + '.handle/handle_async', 'identical in normal form (%d statements)' % len(a), model.func(UH + '.handle_async').loc(), 'the two handlers diverge at statement %s: sync `%s` / async `%s`' % ((d[0] + 1, d[1][:90], d[2][:90]) if d else ('', '', '')))

    def offsets(fi: FuncInfo) -> list[str]:
        out = []
        for n in sorted((x for x in walk_no_nested(fi.node) if isinstance(x, (ast.Assign, ast.AugAssign))), key=lambda x: x.lineno):
            tg = n.targets[0] if isinstance(n, ast.Assign) else n.target
            if dotted(tg) == 'offset':
                out.append(('=' if isinstance(n, ast.Assign) else '+=') + norm(n.value))
        return out

    ua = model.func(MPR + '.unpack_attribute')
    pn = model.func(MPR + '._parse_nexthop_and_nlris')
    run.analysed(ua)
    run.analysed(pn)
    oa, ob = offsets(ua), offsets(pn)
    run.check(oa == ob == ['=3', '+=1', '+=len_nh', '+=1'], MPR, 'validator offsets %s / lazy parser offsets %s' % (oa, ob), pn.loc(), 'RFC 4760 3: AFI(2) SAFI(1) next-hop length(1) next hop reserved(1) NLRI; the lazy parser must skip what the validator checked')
    nh = [n for n in walk_no_nested(pn.node) if isinstance(n, ast.Assign) and dotted(n.targets[0]) == 'nhs']
    run.check(bool(nh) and norm(nh[0].value) == 'data[offset + rd:offset + rd + size]' and 'size = len_nh - rd' in norm(pn.node), pn.qualname, 'next hop = bytes after the RD-sized prefix', pn.loc(), 'the next hop of a VPN family follows an 8-byte zero RD')
    run.check('Family.size[self.afi, self.safi]' in norm(pn.node).replace('(', '').replace(')', '') or 'Family.size[(self.afi, self.safi)]' in norm(pn.node), pn.qualname, 'RD size from Family.size of the attribute own family', pn.loc(), 'per-family RD size')

    # ------------------------------------------------------------------ R3 zero-length negative slice
    run.rule('C02.R3', 'no `x[:-n]` with a variable n that may be 0 in the AS_PATH/AS4_PATH merge (x[:-0] is empty, not x)', floor=1)
    mg = model.func(AC + '.merge_attributes')
    run.analysed(mg)
    n_sl = 0
    for n in walk_no_nested(mg.node):
        if isinstance(n, ast.Subscript) and isinstance(n.slice, ast.Slice) and n.slice.upper is not None:
            up = n.slice.upper
            if isinstance(up, ast.UnaryOp) and isinstance(up.op, ast.USub) and not isinstance(up.operand, ast.Constant):
                n_sl += 1
                g = flat_guards(mg.node, n)
                nm = dotted(up.operand) or ''
                proven = any((norm(t) in (nm, '%s > 0' % nm, '%s >= 1' % nm) and pol) or (norm(t) in ('not %s' % nm, '%s == 0' % nm) and not pol) for t, pol in g)
                if not proven:
                    run.violation(
                        mg.qualname,
                        '%s with %s possibly 0' % (norm(n), nm),
                        mg.loc(n),
                        'when %s is 0 the slice [:-0] is empty: AS_PATH (1 2) {9} merged with an AS4_PATH holding no segment of '
                        'that kind loses the ASNs instead of keeping them (RFC 6793 4.2.3)' % nm,
                    )
                else:
                    run.ok('merge_attributes: %s' % norm(n), 'guarded')
    if n_sl == 0:
        run.ok('merge_attributes', 'no negative variable slice')

    # ------------------------------------------------------------------ R4 next hop attribution
    run.rule('C02.R4', 'next hop attribution: routes of the NLRI section get the NEXT_HOP attribute of the same UPDATE; MP_REACH routes get the next hop bytes of that attribute', floor=2)
    nhdef = [n for n in walk_no_nested(pp.node) if isinstance(n, ast.Assign) and dotted(n.targets[0]) == 'nexthop']
    ok = len(nhdef) == 1 and norm(nhdef[0].value).startswith('attributes.get(Attribute.CODE.NEXT_HOP')
    rn = [c for c in walk_no_nested(pp.node) if isinstance(c, ast.Call) and isinstance(c.func, ast.Name) and c.func.id == 'RoutedNLRI']
    srcs = set()
    for c in rn:
        if len(c.args) >= 2:
            for x in ast.walk(c.args[1]):
                if isinstance(x, ast.Name):
                    srcs.add(x.id)
    ok = ok and bool(rn) and srcs <= {'nexthop', 'packed', 'IPv4', 'IPv6', 'IP'} and all(dotted(c.args[0]) == 'nlri' for c in rn)
    pk = [n for n in walk_no_nested(pp.node) if isinstance(n, ast.Assign) and dotted(n.targets[0]) == 'packed']
    ok = ok and all(norm(p.value) == 'nexthop._packed' for p in pk)
    run.check(ok, pp.qualname, 'RoutedNLRI(nlri, <NEXT_HOP attribute of this UPDATE>)', pp.loc(rn[0]) if rn else pp.loc(), 'IPv4 NLRI-section routes take the NEXT_HOP attribute')
    ir = model.func(MPR + '.iter_routed')
    run.analysed(ir)
    it = norm(ir.node)
    ok = 'nexthop_bytes, nlri_iter = self._parse_nexthop_and_nlris()' in it and 'NextHop.unpack_attribute(nexthop_bytes' in it and 'RoutedNLRI(nlri, nexthop)' in it
    run.check(ok, ir.qualname, 'RoutedNLRI(nlri, next hop parsed from this MP_REACH)', ir.loc(), 'MP_REACH routes take the next hop of their own attribute')

    # the next hop reported for MP_REACH is the FIRST address of the field (RFC 2545: global, then link-local)
    nb = [n for n in walk_no_nested(pn.node) if isinstance(n, ast.Assign) and dotted(n.targets[0]) == 'nexthop_bytes']
    ok_first = False
    why = 'definition of nexthop_bytes not understood'
    if len(nb) == 1:
        v = nb[0].value
        if isinstance(v, ast.IfExp):
            v = v.body
        if isinstance(v, ast.Subscript) and not isinstance(v.slice, ast.Slice):
            idx = folder.fold(v.slice, pn.module)
            base = dotted(v.value) or ''
            chunks = [n for n in walk_no_nested(pn.node) if isinstance(n, ast.Assign) and dotted(n.targets[0]) == base]
            ok_first = idx == 0 and len(chunks) == 1 and 'range(0, len(nhs), 16)' in norm(chunks[0].value) and 'nhs[pos:pos + 16]' in norm(chunks[0].value)
            why = 'index %s of %s' % (idx, base)
        elif isinstance(v, ast.Subscript) and isinstance(v.slice, ast.Slice):
            lo = folder.fold(v.slice.lower, pn.module) if v.slice.lower is not None else 0
            ok_first = lo == 0 and dotted(v.value) == 'nhs'
            why = 'slice %s' % norm(v)
    run.check(ok_first, pn.qualname, 'next hop = first address of the next-hop field (%s)' % why, pn.loc(nb[0]) if nb else pn.loc(), 'with a 32-byte IPv6 next hop (global + link-local, RFC 2545) the route next hop is the global address, i.e. the first 16 bytes')

    # ------------------------------------------------------------------ R6 decode uses the RECEIVE direction of ADD-PATH
    run.rule('C02.R6', 'decoding uses the receive direction of ADD-PATH: the flag handed to the NLRI decoders comes from Negotiated.required(afi, safi) (IN -> receive); no decode-side function reads RequirePath.send', floor=3)
    for qn in (MPR + '.unpack_attribute', MPU + '.unpack_attribute', UC + '._parse_payload'):
        f = model.func(qn)
        run.analysed(f)
        ad = [n for n in walk_no_nested(f.node) if isinstance(n, ast.Assign) and dotted(n.targets[0]) == 'addpath']
        ok = len(ad) == 1 and isinstance(ad[0].value, ast.Call) and model.call_matches(f.module, ad[0].value, 'Negotiated.required')
        sends = model.calls_to(f.module, f.node, 'RequirePath.send')
        run.check(ok and not sends, qn, 'addpath = %s' % (norm(ad[0].value) if ad else None), f.loc(ad[0]) if ad else f.loc(), 'a path identifier is present in received NLRIs iff ADD-PATH RECEIVE was negotiated for the family; the send direction is for encoding only')
        if qn != UC + '._parse_payload' and ad:
            args = [norm(a) for a in ad[0].value.args]
            run.check(args == ['afi', 'safi'], qn, 'for the family of the attribute %s' % args, f.loc(ad[0]), 'ADD-PATH is negotiated per family')
    req = model.func('exabgp.bgp.message.open.capability.negotiated.Negotiated.required')
    okr = False
    for n in walk_no_nested(req.node):
        if isinstance(n, ast.If) and 'Direction.IN' in norm(n.test) and isinstance(n.test, ast.Compare) and isinstance(n.test.ops[0], ast.Eq):
            t = n.body[-1]
            e = n.orelse[-1] if n.orelse else None
            okr = isinstance(t, ast.Return) and 'addpath.receive' in norm(t) and isinstance(e, ast.Return) and 'addpath.send' in norm(e)
    run.check(okr, req.qualname, 'IN -> receive, otherwise send', req.loc(), 'Negotiated.required maps the session direction to the ADD-PATH direction')
    pinit = model.func('exabgp.reactor.protocol.Protocol.__init__')
    run.check('Negotiated.make_negotiated(self.neighbor, Direction.IN)' in norm(pinit.node), pinit.qualname, 'the protocol negotiated object has Direction.IN', pinit.loc(), 'the decoder side must be IN')

    # ------------------------------------------------------------------ R5 AS4 merge packs 4 bytes
    run.rule('C02.R5', 'the path built by merging AS_PATH and AS4_PATH is packed 4 bytes wide (it may hold 4-byte ASNs)', floor=1)
    mk = [c for c in walk_no_nested(mg.node) if isinstance(c, ast.Call) and isinstance(c.func, ast.Attribute) and c.func.attr == 'make_aspath']
    if not mk:
        run.cannot('make_aspath call not found in merge_attributes')
    for c in mk:
        wide = None
        for k in c.keywords:
            if k.arg == 'asn4':
                wide = folder.fold(k.value, mg.module)
        if len(c.args) >= 2:
            wide = folder.fold(c.args[1], mg.module)
        if wide is None:
            # default of the resolved callee
            for cal in model.callees(mg.module, c):
                f = model.funcs.get(cal)
                if f is not None:
                    args = f.node.args
                    names = [a.arg for a in args.args]
                    if 'asn4' in names:
                        i = names.index('asn4') - (len(names) - len(args.defaults))
                        if 0 <= i < len(args.defaults):
                            wide = folder.fold(args.defaults[i], f.module)
        run.check(
            wide is True,
            mg.qualname,
            '%s packs the merged path with asn4=%s' % (norm(c)[:60], wide),
            mg.loc(c),
            'the merged path contains the 4-byte ASNs of AS4_PATH; packed 2 bytes wide ASN.pack_asn raises struct.error for '
            'AS_PATH (23456 2) + AS4_PATH (70000 2) from a 2-byte peer, which the reactor turns into NOTIFICATION 1/0',
        )
