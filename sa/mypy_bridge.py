"""mypy-as-library bridge.

Runs mypy once over /repo/src/exabgp (never executes repository code) and keeps plain-data
side tables:

  calls[relpath]  : list of [line, col, end_line, end_col, [callee fullnames], kind]
  types[relpath]  : list of [line, col, end_line, end_col, type string]   (expressions)

The mypy tree is walked with an explicit child enumeration that never follows semantic
back-references (node/info/type/def_var ...), otherwise the walk wanders into typeshed.

The tables are cached under /verif/.cache/<digest of analysed sources>.json.
"""

from __future__ import annotations

import hashlib
import json
import os
import sys
import time

REPO = os.environ.get('VERIF_REPO', '/repo')
SRC = os.path.join(REPO, 'src')
PKG = os.path.join(SRC, 'exabgp')
CACHE_DIR = os.environ.get('VERIF_CACHE') or os.path.join(os.path.dirname(os.path.dirname(os.path.abspath(__file__))), '.cache')

BRIDGE_VERSION = 10


def analysed_files() -> list[str]:
    out = []
    for root, dirs, files in os.walk(PKG):
        dirs[:] = sorted(d for d in dirs if d not in ('vendoring', '__pycache__'))
        for f in sorted(files):
            if f.endswith('.py'):
                out.append(os.path.join(root, f))
    return out


def digest(files: list[str]) -> str:
    h = hashlib.sha256()
    h.update(str(BRIDGE_VERSION).encode())
    for f in files:
        h.update(f.encode())
        with open(f, 'rb') as fh:
            h.update(hashlib.sha256(fh.read()).digest())
    return h.hexdigest()[:24]


_SKIP_ATTRS = frozenset(
    {
        'node',
        'info',
        'type',
        'def_var',
        'var',
        'impl',
        'analyzed',
        'unanalyzed_type',
        'original_def',
        'type_annotation',
        'partial_fallback',
        'fullname',
        'name',
        'kind',
        'mro',
        'defn',
        'names',
        'imports',
        'alias_deps',
        'plugin_deps',
        'future_import_flags',
        'ignored_lines',
        'skipped_lines',
        'unreachable_lines',
        'arg_kinds',
        'arg_names',
        'abstract_status',
        'type_vars',
        'base_type_exprs',
        'removed_base_type_exprs',
        'metaclass',
        'keywords',
        'decorators_unanalyzed',
        'deferred',
        'line',
        'column',
        'end_line',
        'end_column',
        'is_unreachable',
        'method_type',
        'callee_type',
    }
)


def _children(node):
    """Yield child mypy nodes of *node* without following semantic back references."""
    from mypy.nodes import Node

    for attr in dir(type(node)):
        if attr.startswith('_') or attr in _SKIP_ATTRS:
            continue
        try:
            v = getattr(node, attr)
        except Exception:
            continue
        if isinstance(v, Node):
            yield v
        elif isinstance(v, (list, tuple)):
            for x in v:
                if isinstance(x, Node):
                    yield x
                elif isinstance(x, (list, tuple)):
                    for y in x:
                        if isinstance(y, Node):
                            yield y
                        elif isinstance(y, (list, tuple)):
                            for z in y:
                                if isinstance(z, Node):
                                    yield z


def _type_str(t, depth: int = 0) -> str:
    if depth > 4:
        return '...'
    from mypy.types import (
        AnyType,
        CallableType,
        Instance,
        LiteralType,
        NoneType,
        Overloaded,
        TupleType,
        TypeType,
        UnionType,
        get_proper_type,
    )

    try:
        t = get_proper_type(t)
    except Exception:
        return '?'
    if t is None:
        return '?'
    if isinstance(t, Instance):
        if t.last_known_value is not None and False:
            pass
        if t.args:
            return t.type.fullname + '[' + ','.join(_type_str(a, depth + 1) for a in t.args) + ']'
        return t.type.fullname
    if isinstance(t, AnyType):
        return 'Any'
    if isinstance(t, NoneType):
        return 'None'
    if isinstance(t, UnionType):
        return 'Union[' + ','.join(_type_str(i, depth + 1) for i in t.items) + ']'
    if isinstance(t, TupleType):
        return 'Tuple[' + ','.join(_type_str(i, depth + 1) for i in t.items) + ']'
    if isinstance(t, TypeType):
        return 'Type[' + _type_str(t.item, depth + 1) + ']'
    if isinstance(t, LiteralType):
        return _type_str(t.fallback, depth + 1)
    if isinstance(t, CallableType):
        if t.is_type_obj():
            try:
                return 'Type[' + t.type_object().fullname + ']'
            except Exception:
                return 'Callable'
        if t.definition is not None and getattr(t.definition, 'fullname', None):
            return 'Callable:' + t.definition.fullname
        return 'Callable'
    if isinstance(t, Overloaded):
        return 'Overloaded'
    return type(t).__name__


def _receiver_classes(t) -> list[tuple[str, bool]]:
    """(class fullname, is_class_object) for the classes a receiver type denotes."""
    from mypy.types import (
        CallableType,
        Instance,
        LiteralType,
        Overloaded,
        TupleType,
        TypeType,
        TypeVarType,
        UnionType,
        get_proper_type,
    )

    t = get_proper_type(t)
    out: list[tuple[str, bool]] = []
    if isinstance(t, Instance):
        out.append((t.type.fullname, False))
    elif isinstance(t, UnionType):
        for i in t.items:
            out.extend(_receiver_classes(i))
    elif isinstance(t, TypeType):
        for c, _ in _receiver_classes(t.item):
            out.append((c, True))
    elif isinstance(t, CallableType) and t.is_type_obj():
        try:
            out.append((t.type_object().fullname, True))
        except Exception:
            pass
    elif isinstance(t, Overloaded) and t.items and t.items[0].is_type_obj():
        try:
            out.append((t.items[0].type_object().fullname, True))
        except Exception:
            pass
    elif isinstance(t, TypeVarType):
        out.extend(_receiver_classes(t.upper_bound))
    elif isinstance(t, TupleType):
        out.extend(_receiver_classes(t.partial_fallback))
    elif isinstance(t, LiteralType):
        out.extend(_receiver_classes(t.fallback))
    return out


def _lookup_member(info, name: str):
    """Defining class fullname of *name* through the mypy MRO."""
    for base in info.mro:
        if name in base.names:
            return base.fullname + '.' + name
    return None


def build() -> dict:
    import mypy.build
    from mypy.find_sources import create_source_list
    from mypy.nodes import (
        CallExpr,
        Decorator,
        FuncDef,
        MemberExpr,
        NameExpr,
        OverloadedFuncDef,
        RefExpr,
        SuperExpr,
        TypeInfo,
        Var,
        Expression,
    )
    from mypy.options import Options

    cwd = os.getcwd()
    os.chdir(SRC)
    try:
        opts = Options()
        opts.preserve_asts = True
        opts.export_types = True
        opts.incremental = False
        opts.cache_dir = os.devnull
        opts.python_version = (3, 12)
        opts.ignore_missing_imports = True
        opts.follow_imports = 'silent'
        opts.check_untyped_defs = True
        sources = create_source_list(['exabgp'], opts)
        sources = [s for s in sources if s.module and '.vendoring' not in s.module]
        res = mypy.build.build(sources, opts)
    finally:
        os.chdir(cwd)

    types_map = res.types
    typeinfos: dict[str, TypeInfo] = {}

    def resolve_callee(callee) -> tuple[list[str], str]:
        # returns (fullnames, kind)
        if isinstance(callee, MemberExpr):
            recv_t = types_map.get(callee.expr)
            if isinstance(callee.expr, RefExpr) and isinstance(callee.expr.node, TypeInfo):
                m = _lookup_member(callee.expr.node, callee.name)
                if m:
                    return [m], 'static'
            # module member / direct reference
            if callee.fullname and callee.node is not None and not isinstance(callee.node, Var):
                n = callee.node
                if isinstance(n, TypeInfo):
                    return [n.fullname], 'class'
                if isinstance(n, (FuncDef, Decorator, OverloadedFuncDef)):
                    return [n.fullname], 'func'
            if recv_t is not None:
                classes = _receiver_classes(recv_t)
                out = []
                for cname, is_cls in classes:
                    ti = typeinfos.get(cname)
                    if ti is None:
                        continue
                    m = _lookup_member(ti, callee.name)
                    if m:
                        out.append(m)
                if out:
                    return sorted(set(out)), 'method'
                ts = _type_str(recv_t)
                if ts == 'Any' or ts == '?':
                    return ['?any.' + callee.name], 'any'
                return ['?' + ts + '.' + callee.name], 'unresolved'
            if isinstance(callee.expr, SuperExpr):
                pass
            return ['?untyped.' + callee.name], 'untyped'
        if isinstance(callee, SuperExpr):
            # super().m(...)
            info = callee.info
            if info is not None:
                for base in info.mro[1:]:
                    if callee.name in base.names:
                        return [base.fullname + '.' + callee.name], 'super'
            return ['?super.' + callee.name], 'unresolved'
        if isinstance(callee, NameExpr):
            n = callee.node
            if isinstance(n, TypeInfo):
                return [n.fullname], 'class'
            if isinstance(n, (FuncDef, Decorator, OverloadedFuncDef)):
                return [n.fullname], 'func'
            if isinstance(n, Var):
                t = types_map.get(callee)
                if t is not None:
                    classes = _receiver_classes(t)
                    cls_objs = [c for c, is_cls in classes if is_cls]
                    if cls_objs:
                        return sorted(set(cls_objs)), 'classvar'
                    ts = _type_str(t)
                    if ts.startswith('Callable:'):
                        return [ts[len('Callable:') :]], 'funcvar'
                return ['?var.' + callee.name], 'var'
            if callee.fullname:
                return [callee.fullname], 'name'
            return ['?name.' + callee.name], 'unresolved'
        if isinstance(callee, CallExpr):
            return ['?callresult'], 'callresult'
        return ['?expr'], 'expr'

    # collect TypeInfos of analysed + dependencies (for MRO member lookup)
    for mod_name, state in res.graph.items():
        tree = state.tree
        if tree is None:
            continue
        for name, sym in tree.names.items():
            if isinstance(sym.node, TypeInfo):
                _collect_typeinfo(sym.node, typeinfos)

    calls: dict[str, list] = {}
    types: dict[str, list] = {}
    classes: dict[str, dict] = {}
    n_calls = 0
    kinds: dict[str, int] = {}

    for mod_name, state in res.graph.items():
        if not (mod_name == 'exabgp' or mod_name.startswith('exabgp.')):
            continue
        if '.vendoring' in mod_name:
            continue
        tree = state.tree
        if tree is None or not tree.path:
            continue
        rel = os.path.relpath(os.path.join(SRC, tree.path) if not os.path.isabs(tree.path) else tree.path, SRC)
        fcalls = []
        ftypes = []
        seen = set()
        stack = [tree]
        while stack:
            node = stack.pop()
            nid = id(node)
            if nid in seen:
                continue
            seen.add(nid)
            if isinstance(node, CallExpr):
                names, kind = resolve_callee(node.callee)
                n_calls += 1
                kinds[kind] = kinds.get(kind, 0) + 1
                recv: list[str] = []
                if isinstance(node.callee, MemberExpr):
                    rt = types_map.get(node.callee.expr)
                    if rt is not None:
                        recv = sorted({c for c, _ in _receiver_classes(rt)})
                    elif isinstance(node.callee.expr, RefExpr) and isinstance(node.callee.expr.node, TypeInfo):
                        recv = [node.callee.expr.node.fullname]
                fcalls.append(
                    [node.line, node.column, node.end_line or -1, node.end_column or -1, names, kind, recv]
                )
            if isinstance(node, Expression):
                t = types_map.get(node)
                if t is not None:
                    ftypes.append(
                        [node.line, node.column, node.end_line or -1, node.end_column or -1, _type_str(t)]
                    )
            for c in _children(node):
                stack.append(c)
        calls[rel] = fcalls
        types[rel] = ftypes

    for fullname, ti in typeinfos.items():
        if fullname.startswith('exabgp.') and '.vendoring' not in fullname:
            classes[fullname] = {'mro': [b.fullname for b in ti.mro], 'names': sorted(ti.names.keys())}

    errors = [e for e in res.errors if 'vendoring' not in e]
    return {
        'calls': calls,
        'types': types,
        'classes': classes,
        'stats': {'calls': n_calls, 'kinds': kinds, 'modules': len(calls), 'errors': len(errors)},
        'errors': errors[:50],
    }


def _collect_typeinfo(ti, out):
    from mypy.nodes import TypeInfo

    if ti.fullname in out:
        return
    out[ti.fullname] = ti
    for name, sym in ti.names.items():
        if isinstance(sym.node, TypeInfo):
            _collect_typeinfo(sym.node, out)
    for b in ti.mro:
        if b.fullname not in out:
            _collect_typeinfo(b, out)


def load(verbose: bool = False) -> dict:
    files = analysed_files()
    d = digest(files)
    os.makedirs(CACHE_DIR, exist_ok=True)
    path = os.path.join(CACHE_DIR, d + '.json')
    if os.path.exists(path):
        try:
            with open(path) as fh:
                data = json.load(fh)
            data['cached'] = True
            return data
        except Exception:
            pass
    t0 = time.time()
    data = build()
    data['build_s'] = round(time.time() - t0, 2)
    tmp = path + '.%d.tmp' % os.getpid()
    with open(tmp, 'w') as fh:
        json.dump(data, fh)
    os.replace(tmp, path)
    # prune old cache entries (keep the 6 most recent)
    try:
        entries = sorted(
            (os.path.join(CACHE_DIR, f) for f in os.listdir(CACHE_DIR) if f.endswith('.json')),
            key=os.path.getmtime,
        )
        for old in entries[:-6]:
            os.unlink(old)
    except OSError:
        pass
    data['cached'] = False
    return data


if __name__ == '__main__':
    t0 = time.time()
    data = load()
    print(json.dumps(data['stats'], indent=1), 'cached' if data.get('cached') else 'built', round(time.time() - t0, 2))
    for e in data.get('errors', [])[:10]:
        print(e)
    sys.stdout.flush()
    os._exit(0)
