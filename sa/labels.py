"""Flow-sensitive label propagation through the locals of one function (a forward dataflow on the statement CFG).

A rule seeds labels on expressions ("this is the withdrawn section", "these are the announces of the message") and asks
which labels reach a sink.  Nothing depends on what the locals are called.

  seed(expr)            -> labels an expression carries by itself (checked on every sub-expression)
  seed_unpack(value, i) -> labels of element i when `a, b, c = value` is unpacked
  ignore(stmt)          -> statements whose effect is not propagated

Containers: `X.append(v)`, `X.setdefault(k, d).append(v)`, `X[k] = v`, `X += v` add the labels of v to X (weak update);
`x = e` replaces the labels of x (strong update).  Join is union.
"""

from __future__ import annotations

import ast
from typing import Callable, Iterable

from .cfg import CFG, _walk_expr

Env = dict[str, frozenset[str]]
_MUTATORS = {'append', 'extend', 'add', 'update', 'insert', 'appendleft', 'setdefault', 'extendleft', '__setitem__'}


def _root(e: ast.AST) -> str | None:
    while True:
        if isinstance(e, ast.Name):
            return e.id
        if isinstance(e, ast.Call):
            e = e.func
        elif isinstance(e, (ast.Attribute, ast.Subscript, ast.Starred)):
            e = e.value
        else:
            return None


class LabelFlow:
    def __init__(
        self,
        fn: ast.FunctionDef | ast.AsyncFunctionDef,
        seed: Callable[[ast.AST], Iterable[str]],
        seed_unpack: Callable[[ast.AST, int], Iterable[str]] | None = None,
        ignore: Callable[[ast.AST], bool] | None = None,
        params: dict[str, Iterable[str]] | None = None,
        cfg: CFG | None = None,
    ) -> None:
        self.fn = fn
        self.seed = seed
        self.seed_unpack = seed_unpack
        self.ignore = ignore
        self.cfg = cfg or CFG(fn)
        self.inn: dict[int, Env] = {}
        init: Env = {k: frozenset(v) for k, v in (params or {}).items()}
        self._solve(init)

    # ------------------------------------------------------------------ expressions
    def labels(self, e: ast.AST | None, env: Env) -> frozenset[str]:
        if e is None:
            return frozenset()
        out: set[str] = set(self.seed(e))
        if isinstance(e, ast.Name):
            out |= env.get(e.id, frozenset())
            return frozenset(out)
        if isinstance(e, (ast.ListComp, ast.SetComp, ast.GeneratorExp, ast.DictComp)):
            env2 = dict(env)
            for g in e.generators:
                lab = self.labels(g.iter, env2)
                for n in ast.walk(g.target):
                    if isinstance(n, ast.Name):
                        env2[n.id] = lab
                for c in g.ifs:
                    out |= self.labels(c, env2)
            if isinstance(e, ast.DictComp):
                out |= self.labels(e.key, env2) | self.labels(e.value, env2)
            else:
                out |= self.labels(e.elt, env2)
            return frozenset(out)
        if isinstance(e, ast.Lambda):
            return frozenset(out)
        for c in ast.iter_child_nodes(e):
            if isinstance(c, (ast.expr, ast.keyword, ast.FormattedValue, ast.comprehension, ast.Starred)):
                out |= self.labels(c, env)
        return frozenset(out)

    # ------------------------------------------------------------------ statements
    def _assign(self, tg: ast.AST, lab: frozenset[str], env: Env, value: ast.AST | None = None, idx: int | None = None) -> None:
        if isinstance(tg, ast.Name):
            env[tg.id] = lab
        elif isinstance(tg, (ast.Tuple, ast.List)):
            for i, el in enumerate(tg.elts):
                l2 = lab
                if value is not None and self.seed_unpack is not None:
                    extra = frozenset(self.seed_unpack(value, i))
                    if extra:
                        l2 = extra
                if isinstance(value, (ast.Tuple, ast.List)) and len(value.elts) == len(tg.elts):
                    l2 = self.labels(value.elts[i], env)
                self._assign(el, l2, env)
        elif isinstance(tg, ast.Starred):
            self._assign(tg.value, lab, env)
        elif isinstance(tg, (ast.Subscript, ast.Attribute)):
            r = _root(tg)
            if r is not None and isinstance(tg, ast.Subscript):
                env[r] = env.get(r, frozenset()) | lab

    def _effects(self, st: ast.AST, env: Env) -> None:
        # container mutation through method calls anywhere in the statement
        for n in _walk_expr(st):
            if isinstance(n, ast.Call) and isinstance(n.func, ast.Attribute) and n.func.attr in _MUTATORS:
                r = _root(n.func.value)
                if r is None:
                    continue
                lab: frozenset[str] = frozenset()
                c: ast.AST = n
                # all arguments along the chain  X.setdefault(k, {}).setdefault(n, []).append(v)
                while isinstance(c, ast.Call):
                    for a in c.args:
                        lab |= self.labels(a, env)
                    for k in c.keywords:
                        lab |= self.labels(k.value, env)
                    c = c.func.value if isinstance(c.func, ast.Attribute) else c.func
                if lab:
                    env[r] = env.get(r, frozenset()) | lab
            elif isinstance(n, ast.NamedExpr) and isinstance(n.target, ast.Name):
                env[n.target.id] = self.labels(n.value, env)

    def transfer(self, node, env: Env) -> Env:  # noqa: ANN001
        st = node.ast
        if st is None or (self.ignore is not None and self.ignore(st)):
            return env
        env = dict(env)
        if node.kind == 'test':
            if isinstance(st, (ast.For, ast.AsyncFor)):
                self._effects(st.iter, env)
                self._assign(st.target, self.labels(st.iter, env), env)
            elif isinstance(st, (ast.If, ast.While)):
                self._effects(st.test, env)
            return env
        if isinstance(st, (ast.FunctionDef, ast.AsyncFunctionDef, ast.ClassDef)):
            return env
        if isinstance(st, ast.Assign):
            self._effects(st.value, env)
            lab = self.labels(st.value, env)
            for tg in st.targets:
                self._assign(tg, lab, env, st.value)
        elif isinstance(st, ast.AnnAssign):
            if st.value is not None:
                self._effects(st.value, env)
                self._assign(st.target, self.labels(st.value, env), env, st.value)
        elif isinstance(st, ast.AugAssign):
            self._effects(st.value, env)
            lab = self.labels(st.value, env)
            r = _root(st.target)
            if r is not None:
                env[r] = env.get(r, frozenset()) | lab
        elif isinstance(st, (ast.With, ast.AsyncWith)):
            for it in st.items:
                self._effects(it.context_expr, env)
                if it.optional_vars is not None:
                    self._assign(it.optional_vars, self.labels(it.context_expr, env), env)
        elif isinstance(st, ast.Try):
            pass
        else:
            self._effects(st, env)
        return env

    def _solve(self, init: Env) -> None:
        cfg = self.cfg
        self.inn = {cfg.entry.id: init}
        out: dict[int, Env] = {}
        work = [cfg.entry.id]
        guard = 0
        while work and guard < 200000:
            guard += 1
            i = work.pop()
            node = cfg.nodes[i]
            env_out = self.transfer(node, self.inn.get(i, {}))
            if out.get(i) == env_out and i in out:
                continue
            out[i] = env_out
            for s, lab in node.succ:
                # an exception edge leaves before the statement completed: propagate the IN state as well
                src = env_out if lab != 'exc' else _join(self.inn.get(i, {}), env_out)
                cur = self.inn.get(s)
                new = src if cur is None else _join(cur, src)
                if cur != new:
                    self.inn[s] = new
                    work.append(s)

    # ------------------------------------------------------------------ queries
    def env_at(self, node: ast.AST) -> Env:
        """labels of the locals just before the statement containing node."""
        n = self.cfg.stmt_node_containing(node)
        if n is None:
            return {}
        env: Env = {}
        for c in self.cfg.nodes_of(n.ast) if n.ast is not None else [n]:
            env = _join(env, self.inn.get(c.id, {}))
        return env

    def of(self, expr: ast.AST) -> frozenset[str]:
        return self.labels(expr, self.env_at(expr))


def _join(a: Env, b: Env) -> Env:
    if not a:
        return dict(b)
    out = dict(a)
    for k, v in b.items():
        out[k] = out.get(k, frozenset()) | v
    return out


class ReachDefs:
    """Reaching definitions of the locals of one function: which assignments may be the one a use sees.

    reaching(name, node) -> ids (id() of the defining statement) of the definitions of `name` that can reach the statement
    containing `node`.  `x += v` and `x[k] = v` add to the definitions of x, plain assignment replaces them."""

    def __init__(self, fn: ast.FunctionDef | ast.AsyncFunctionDef, cfg: CFG | None = None) -> None:
        self.cfg = cfg or CFG(fn)
        self.inn: dict[int, dict[str, frozenset[int]]] = {self.cfg.entry.id: {}}
        out: dict[int, dict[str, frozenset[int]]] = {}
        work = [self.cfg.entry.id]
        guard = 0
        while work and guard < 200000:
            guard += 1
            i = work.pop()
            node = self.cfg.nodes[i]
            o = self._transfer(node, self.inn.get(i, {}))
            if i in out and out[i] == o:
                continue
            out[i] = o
            for s, lab in node.succ:
                src = o if lab != 'exc' else _join(self.inn.get(i, {}), o)
                cur = self.inn.get(s)
                new = dict(src) if cur is None else _join(cur, src)
                if cur != new:
                    self.inn[s] = new
                    work.append(s)

    @staticmethod
    def _targets(tg: ast.AST) -> tuple[list[str], list[str]]:
        strong, weak = [], []
        if isinstance(tg, ast.Name):
            strong.append(tg.id)
        elif isinstance(tg, (ast.Tuple, ast.List)):
            for e in tg.elts:
                s, w = ReachDefs._targets(e)
                strong += s
                weak += w
        elif isinstance(tg, ast.Starred):
            return ReachDefs._targets(tg.value)
        elif isinstance(tg, ast.Subscript):
            r = _root(tg)
            if r:
                weak.append(r)
        return strong, weak

    def _transfer(self, node, env: dict[str, frozenset[int]]) -> dict[str, frozenset[int]]:  # noqa: ANN001
        st = node.ast
        if st is None:
            return env
        env = dict(env)
        tgs: list[ast.AST] = []
        weak_only = False
        if node.kind == 'test':
            if isinstance(st, (ast.For, ast.AsyncFor)):
                tgs = [st.target]
        elif isinstance(st, ast.Assign):
            tgs = list(st.targets)
        elif isinstance(st, ast.AnnAssign) and st.value is not None:
            tgs = [st.target]
        elif isinstance(st, ast.AugAssign):
            tgs = [st.target]
            weak_only = True
        elif isinstance(st, (ast.With, ast.AsyncWith)):
            tgs = [it.optional_vars for it in st.items if it.optional_vars is not None]
        for tg in tgs:
            strong, weak = self._targets(tg)
            if weak_only:
                weak, strong = weak + strong, []
            for nm in strong:
                env[nm] = frozenset({id(st)})
            for nm in weak:
                env[nm] = env.get(nm, frozenset()) | {id(st)}
        return env

    def reaching(self, name: str, node: ast.AST) -> frozenset[int] | None:
        n = self.cfg.stmt_node_containing(node)
        if n is None:
            return None
        env: dict[str, frozenset[int]] = {}
        for c in self.cfg.nodes_of(n.ast) if n.ast is not None else [n]:
            env = _join(env, self.inn.get(c.id, {}))
        return env.get(name)
