"""./check <ID> [--tier quick|thorough] [--replay path]"""

from __future__ import annotations

import argparse
import importlib
import os
import sys
import traceback

from .model import AnalysisError, Model
from .report import Run


def main(argv: list[str]) -> int:
    if argv and argv[0] == '--warm':
        from . import mypy_bridge

        d = mypy_bridge.load()
        print('warm: %d modules, %d calls, %s' % (d['stats']['modules'], d['stats']['calls'], 'cached' if d.get('cached') else 'built'))
        return 0
    ap = argparse.ArgumentParser()
    ap.add_argument('prop')
    ap.add_argument('--tier', default=os.environ.get('VERIF_TIER', 'quick'))
    ap.add_argument('--replay', default=None)
    args = ap.parse_args(argv)
    tier = args.tier if args.tier in ('quick', 'thorough') else 'quick'
    try:
        seed = int(os.environ.get('VERIF_SEED', '0'))
    except ValueError:
        seed = 0
    prop = args.prop.upper()
    run = Run(prop, tier, seed)
    try:
        try:
            rules = importlib.import_module('sa.rules.' + prop)
        except ModuleNotFoundError:
            print('ANALYSIS-ERROR property=%s no rule module' % prop)
            return 2
        model = Model(need_types=getattr(rules, 'NEED_TYPES', True))
        run.extra['bridge'] = (model.bridge or {}).get('stats', {})
        run.extra['modules_parsed'] = len(model.modules)
        if len(model.modules) < 380:
            run.errors.append('only %d modules parsed (floor 380)' % len(model.modules))
        rules.check(model, run)
        if tier == 'thorough' and hasattr(rules, 'check_thorough'):
            rules.check_thorough(model, run)
        code = run.finish()
    except AnalysisError as e:
        print('ANALYSIS-ERROR property=%s %s' % (prop, e))
        run.errors.append(str(e))
        try:
            run.write_evidence(0, [])
        except Exception:
            pass
        code = 2
    except Exception:
        print('ANALYSIS-ERROR property=%s internal error' % prop)
        traceback.print_exc(file=sys.stdout)
        code = 2
    return code


if __name__ == '__main__':
    c = main(sys.argv[1:])
    sys.stdout.flush()
    sys.stderr.flush()
    os._exit(c)
