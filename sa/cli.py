"""./check <ID> [--tier quick|thorough] [--replay path]"""

from __future__ import annotations

import argparse
import importlib
import os
import sys
import traceback

from .model import AnalysisError, Model
from .report import Run


def main(argv: list[str]) -> int:
    if argv and argv[0] == '--warm':
        from . import mypy_bridge

        d = mypy_bridge.load()
        print('warm: %d modules, %d calls, %s' % (d['stats']['modules'], d['stats']['calls'], 'cached' if d.get('cached') else 'built'))
        return 0
    ap = argparse.ArgumentParser()
    ap.add_argument('prop')
    ap.add_argument('--tier', default=os.environ.get('VERIF_TIER', 'quick'))
    ap.add_argument('--replay', default=None)
    args = ap.parse_args(argv)
    tier = args.tier if args.tier in ('quick', 'thorough') else 'quick'
    try:
        seed = int(os.environ.get('VERIF_SEED', '0'))
    except ValueError:
        seed = 0
    prop = args.prop.upper()
    run = Run(prop, tier, seed)
    try:
        try:
            rules = importlib.import_module('sa.rules.' + prop)
        except ModuleNotFoundError:
            print('ANALYSIS-ERROR property=%s no rule module' % prop)
            return 2
        model = Model(need_types=getattr(rules, 'NEED_TYPES', True))
        run.extra['bridge'] = (model.bridge or {}).get('stats', {})
        run.extra['modules_parsed'] = len(model.modules)
        if len(model.modules) < 380:
            run.errors.append('only %d modules parsed (floor 380)' % len(model.modules))
        rules.check(model, run)
        if tier == 'thorough' and hasattr(rules, 'check_thorough'):
            rules.check_thorough(model, run)
        if tier == 'thorough' and not os.environ.get('VERIF_REPO'):
            # the thorough tier also turns the checker on itself: every seeded breakage of this property, every repair
            # re-introduced, the neutral seeds and the two automatic twins, each on a scratch copy of the tree.  The tally
            # goes into the evidence; the verdict of the check is decided by the rules on the real tree only.
            run.extra['selftest'] = _selftest(prop)
        code = run.finish()
    except AnalysisError as e:
        print('ANALYSIS-ERROR property=%s %s' % (prop, e))
        run.errors.append(str(e))
        try:
            run.write_evidence(0, [])
        except Exception:
            pass
        code = 2
    except Exception:
        print('ANALYSIS-ERROR property=%s internal error' % prop)
        traceback.print_exc(file=sys.stdout)
        code = 2
    return code


def _selftest(prop: str) -> dict:
    import multiprocessing

    here = os.path.dirname(os.path.dirname(os.path.abspath(__file__)))
    if here not in sys.path:
        sys.path.insert(0, here)
    try:
        from selftest.run import run_one, variants

        vs = variants([prop], {'seed', 'auto', 'revert', 'mutant', 'twin'})
        with multiprocessing.Pool(min(14, max(1, len(vs)))) as pool:
            rows = pool.map(run_one, vs)
    except Exception as e:  # noqa: BLE001
        return {'error': repr(e)[:200]}
    out = {'variants': len(rows), 'killed': 0, 'survived': [], 'silent': 0, 'alarmed': [], 'skipped': []}
    for r in rows:
        if r['status'] == 'killed':
            out['killed'] += 1
        elif r['status'] == 'silent':
            out['silent'] += 1
        elif r['status'] in ('skipped', 'error'):
            out['skipped'].append(r['name'])
        elif r['kind'] == 'mutant':
            out['survived'].append(r['name'])
        else:
            out['alarmed'].append(r['name'])
    out['detail'] = [{'name': r['name'], 'kind': r['kind'], 'status': r['status'], 'reports': r.get('reports', [])[:2]} for r in rows]
    return out


if __name__ == '__main__':
    c = main(sys.argv[1:])
    sys.stdout.flush()
    sys.stderr.flush()
    os._exit(c)
