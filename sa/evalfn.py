"""Evaluation of small pure functions over concrete arguments, on the syntax tree.

The length predictors and header writers of the encoder are tiny integer/bytes functions; which spelling they use
(if / else, conditional expression, early return, named constants) is irrelevant to what they compute.  Instead of
matching a shape, the rules evaluate them for the boundary arguments with the constant folder and compare the results.
Only Assign / AugAssign / If / For over a constant sequence / Return / assert / pass / docstrings are executed (calls that
the caller declares to be effects are recorded); anything else makes the result UNKNOWN.
"""

from __future__ import annotations

import ast
from typing import Any

from .const import UNKNOWN, Folder
from .model import FuncInfo


class _Return(Exception):
    def __init__(self, value: Any) -> None:
        self.value = value


class _Unknown(Exception):
    def __init__(self, at: ast.AST | None = None) -> None:
        self.at = at


class _Raise(Exception):
    def __init__(self, stmt: ast.Raise) -> None:
        self.stmt = stmt


class Raised:
    """outcome of an evaluation that ended in a `raise` statement"""

    def __init__(self, stmt: ast.Raise) -> None:
        self.stmt = stmt

    def __repr__(self) -> str:
        return 'raise@%d' % self.stmt.lineno


class _LoopControl(Exception):
    def __init__(self, kind: str) -> None:
        self.kind = kind


class EnumMember(str):
    """a member of a str-valued enumeration handed to an evaluation: compares like its value, has .value and .name"""

    def __new__(cls, value: str, name: str | None = None):  # noqa: ANN204
        o = str.__new__(cls, value)
        o.value = value  # type: ignore[attr-defined]
        o.name = name or value  # type: ignore[attr-defined]
        return o


class Undecided:
    """outcome of an evaluation that met a statement it could not decide (after having run the earlier ones)"""

    def __init__(self, at: ast.AST | None) -> None:
        self.at = at

    def __repr__(self) -> str:
        return 'undecided@%s' % getattr(self.at, 'lineno', '?')


def eval_function(folder: Folder, fi: FuncInfo, args: dict[str, Any], max_steps: int = 500, on_unknown: Any = None, env_out: dict | None = None, body: list[ast.stmt] | None = None, outcomes: bool = False, on_effect: Any = None) -> Any:
    """`on_unknown(expr)` may supply the value of an expression the folder can not evaluate (the clock, say); `env_out`
    receives the final environment - an object passed as a dict ({'self': {...}}) shows the attributes that were stored."""
    env: dict[str, Any] = dict(args)
    if env_out is not None:
        env = env_out
        env.update(args)
    steps = [0]
    depth = [0]

    def ev(e: ast.AST) -> Any:
        v = folder.fold(e, fi.module, fi.cls, env)
        if v is UNKNOWN and on_unknown is not None:
            v = on_unknown(e)
        if v is UNKNOWN:
            raise _Unknown(e)
        return v

    def block(sts: list[ast.stmt]) -> None:
        for st in sts:
            steps[0] += 1
            if steps[0] > max_steps:
                raise _Unknown(st)
            if isinstance(st, ast.Return):
                raise _Return(ev(st.value) if st.value is not None else None)
            if isinstance(st, ast.Raise) and outcomes:
                raise _Raise(st)
            if isinstance(st, (ast.Continue, ast.Break)) and depth[0] > 0:
                raise _LoopControl('continue' if isinstance(st, ast.Continue) else 'break')
            if isinstance(st, (ast.Continue, ast.Break)) and outcomes and body is not None:
                # the statements of a loop body are being evaluated for one turn: this ends the turn
                raise _Return('continue' if isinstance(st, ast.Continue) else 'break')
            if isinstance(st, ast.For) and not st.orelse and (isinstance(st.target, ast.Name) or (isinstance(st.target, ast.Tuple) and all(isinstance(x, ast.Name) for x in st.target.elts))):
                items = ev(st.iter)
                if not isinstance(items, (list, tuple, bytes, str)) or len(items) > 2000:
                    raise _Unknown(st)
                depth[0] += 1
                try:
                    for item in items:
                        if isinstance(st.target, ast.Name):
                            env[st.target.id] = item
                        else:
                            if not isinstance(item, (tuple, list)) or len(item) != len(st.target.elts):
                                raise _Unknown(st)
                            for x_, v_ in zip(st.target.elts, item):
                                env[x_.id] = v_  # type: ignore[attr-defined]
                        try:
                            block(st.body)
                        except _LoopControl as lc:
                            if lc.kind == 'break':
                                break
                finally:
                    depth[0] -= 1
                continue
            if isinstance(st, ast.Expr) and isinstance(st.value, ast.Call) and on_effect is not None and on_effect(st.value, env):
                continue
            if isinstance(st, (ast.Pass, ast.Assert, ast.FunctionDef, ast.AsyncFunctionDef, ast.ClassDef, ast.Import, ast.ImportFrom, ast.Global, ast.Nonlocal)):
                continue  # definitions and declarations: nothing happens
            if isinstance(st, ast.Expr) and isinstance(st.value, ast.Constant):
                continue
            if isinstance(st, ast.AnnAssign) and st.value is None:
                continue
            if isinstance(st, ast.Expr) and isinstance(st.value, ast.Call) and (ast.unparse(st.value.func).startswith('log.')):
                continue
            if isinstance(st, (ast.Assign, ast.AnnAssign)):
                tg = st.targets[0] if isinstance(st, ast.Assign) else st.target
                if isinstance(st, ast.Assign) and len(st.targets) != 1:
                    raise _Unknown(st)
                if isinstance(tg, ast.Attribute) and isinstance(tg.value, ast.Name) and isinstance(env.get(tg.value.id), dict):
                    env[tg.value.id][tg.attr] = ev(st.value)  # type: ignore[arg-type]
                    continue
                if isinstance(tg, (ast.Tuple, ast.List)) and all(isinstance(x, ast.Name) for x in tg.elts):
                    vs = ev(st.value)  # type: ignore[arg-type]
                    if not isinstance(vs, (tuple, list)) or len(vs) != len(tg.elts):
                        raise _Unknown(st)
                    for x, v_ in zip(tg.elts, vs):
                        env[x.id] = v_  # type: ignore[attr-defined]
                    continue
                if not isinstance(tg, ast.Name):
                    raise _Unknown(st)
                env[tg.id] = ev(st.value)  # type: ignore[arg-type]
                continue
            if isinstance(st, ast.AugAssign) and isinstance(st.target, ast.Name):
                cur = ast.BinOp(left=ast.Name(id=st.target.id, ctx=ast.Load()), op=st.op, right=st.value)
                env[st.target.id] = ev(cur)
                continue
            if isinstance(st, ast.If):
                block(st.body if ev(st.test) else st.orelse)
                continue
            raise _Unknown(st)

    try:
        block(fi.node.body if body is None else body)
    except _Return as r:
        return r.value
    except _Raise as r:
        return Raised(r.stmt)
    except _Unknown as u:
        return Undecided(u.at) if outcomes else UNKNOWN
    return None
