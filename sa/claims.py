"""What MANIFEST.json claims per property (kept next to the rules)."""

_NOTE = ('Trusted: CPython ast, mypy-inferred receiver types (callee resolution), the RFC tables frozen in the rule '
         'modules. Decides only the structural clauses named; runtime values, timing and histories are not decided.')

CLAIMS = {
    'C08': {
        'text': 'Structural clauses of RFC 7606 handling decided on every run from the source: the treat-as-withdraw '
                'marker is consumed before the announce sinks, the attribute walk checks the declared length against '
                'what is left, every registered attribute has a disposition (flag folded through the MRO or only '
                'Notify(3,x) escapes), both failure arms of the walk honour both flags, discard continues the walk, '
                'the RFC 7606 section 7 class table. Not decided: which malformed values each decoder recognises.',
        'note': _NOTE,
        'technique': 'AST pattern + resolved-callee rules, constant folding of class flags through the MRO, interprocedural explicit exception flow',
    },
}

NOT_APPLICABLE = {}
for _i in range(1, 21):
    _p = 'C%02d' % _i
    if _p not in CLAIMS:
        NOT_APPLICABLE[_p] = 'check under construction in this session (rules designed in DESIGN.md section 3, not yet armed); not claimed until its check exists and is silent on the unchanged tree'
