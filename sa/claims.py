"""What MANIFEST.json claims per property (kept next to the rules)."""

_NOTE = ('Trusted: CPython ast, mypy-inferred receiver types (callee resolution), the RFC tables frozen in the rule '
         'modules. Decides only the structural clauses named; runtime values, timing and histories are not decided.')

CLAIMS = {
    'C15': {
        'text': 'For every NLRI class compared by index(): what __hash__ hashes is covered by what index() is built from; index() '
                'separates the ADD-PATH variants by distinct constant markers; every registered NLRI / attribute has its '
                'pack/unpack/index/json (not the raising stub); renderers are deterministic (no set iteration, id, hash, clock); '
                'no __eq__ compares a field with itself; the AS_PATH 2-byte detour keeps the path. Also: fields kept beside the packed bytes are part of index(); a class indexed by its complete bytes compares every wire field (5 known findings F38); __deepcopy__ is deep for mutable slots; order-independent sets render sorted. Not decided: value-level round '
                'trips for every family and attribute.'
                ' Round 3: fixed fields of a decoder read disjoint byte ranges per path (F44 fixed); copies give the copy every declared slot; FlowSpec length round trip (shared C16.R4); memoised renderings do not depend on call arguments.'
                ' Round 4: the bytes-keyed attribute cache serves no class whose decoder reads the session (shared with C19.R8).',
        'note': _NOTE,
        'technique': 'MRO-effective member lookup + operand-set comparison of __eq__/index/__hash__, registry completeness, typed iteration checks',
    },
    'C18': {
        'text': 'Conversion points: Section.parse turns ValueError into a located error, reload() and the API callbacks have '
                'catch-alls (C14.R1, C17.R1); truncating factories are range-guarded on every parser path (labels, with helper '
                'functions followed); inventory of every packed integer with its guard-derived bound (overflow raises, never '
                'wraps); the shared validity check runs for API commands and at encode time (known finding F29: not for the '
                'configuration file); 4-byte ASNs accepted and AS paths built 4 bytes wide. Also: (high << k) + low assemblies bound the low part below 2^k; numbers handed to masking factories are bounded; FlowSpec lists keep their AND bits as written. Not decided: acceptance of every '
                'token sequence.'
                ' Round 3: a range guard one short of the field is reported; the family of a prefix is recorded on every returning path; every installing API handler validates first and the next-hop requirement matches the encoder for every SAFI (F54, F55 fixed); a failed conversion is a refusal (F56 fixed); one-octet fields and prefix lengths handed to factories are bounded (F57, F58 fixed).'
                ' Round 4: FlowSpec values are bounded by the octets of their component, nothing written is silently left out, a hexadecimal extended community is 8 octets (F70-F72 fixed); flow rules need no next hop.'
                ' Round 5: the address family of a prefix goes with the prefix in every text parser (R13, F75/F76 fixed); type octets and layout of a route target / origin come from the same table entry (R14, _encode evaluated).',
        'note': _NOTE,
        'technique': 'interval upper bounds from dominating range guards, pack-format width table, def-use into lossy factories, call-site presence checks',
    },
    'C16': {
        'text': 'FlowSpec: ascending component order, EOL cleared on all and set on the last operator, AND bit untouched, RD first; '
                'value width thresholds and the power/rewop tables; component registry 1-13 by family; NLRI length writer and '
                'reader agree (240 switch, 0xFnnn up to 4095, 8-bit shift); malformed input raises and is mapped to INVALID, '
                'never a shorter rule; traffic action (type, subtype) constants; the text parser reassigns the AND flag before '
                'every operator. Not decided: operator/value semantics of every rule text.'
                ' Round 3: the length writer is evaluated on boundary lengths; swapped same-typed arguments (shared rule); copies are complete.'
                ' Round 4: encoders, length bits and the NLRI length prefix decided by evaluation; every component decoder yields a BaseValue.',
        'note': _NOTE,
        'technique': 'constant folding, writer/reader layout comparison, bit-width inference, guard checks, path-sensitive flag tracking over the parser CFG',
    },
    'C17': {
        'text': 'After _clear() every exit of _reload (return or escaping exception) passes commit or rollback; nothing rolls back '
                'or reports failure after the commit; replace_reload compares attributes and next hop, forces re-announcement, '
                'and withdraws leftovers unconditionally; Reactor.reload touches peers only after success. Also: Neighbor.__eq__ compares everything the OPEN is built from. Not decided: equality '
                'of peer tables for arbitrary configuration pairs.'
                ' Round 3: the rollback restores what _clear() saved (F48 fixed); every parse starts from a clean parser (F49 fixed); no section parser reaches a mutator of the shared RIB before the commit (known F50); the offline branch of Peer.reconfigure covers every state but ESTABLISHED.'
                ' Round 4: a reload leaves a route its watchdog holds back as it is (F74 fixed); tuple assignments and keyword arguments of the reload code are normalised before the rules run.',
        'note': _NOTE,
        'technique': 'must-pass-through on the CFG with exception edges, reachability after commit, def-use atoms of the re-announce decision',
    },
    'C19': {
        'text': 'Memoised decoding: each early return of class-level state in a decode-reachable function that computes with '
                '`negotiated` must make the hit depend on the session (or be provably off); the cached collection never holds a key '
                'its consumer pops; no decode-reachable rewrite of a class attribute of a multiply-registered class; negotiated is '
                'read-only while decoding; singletons not mutated (thorough). One known finding (F18). Also: a memo on a shared attribute object does not depend on call arguments; identity-keyed class tables only grow; memo key and value move together. Not decided: equality of '
                'outputs over message sequences.'
                ' Round 3: class-level containers filled through self are listed process-wide tables or violations.'
                ' Round 4: the per-attribute cache of Attribute.unpack (R8, shared with C15.R13).',
        'note': _NOTE,
        'technique': 'runtime-class-write inventory with mypy types, guard atom analysis, registry multiplicity, decode reachability',
    },
    'C20': {
        'text': 'The rise/fall automaton of one() is extracted by symbolic evaluation over the complete finite predicate space (96 '
                'cells) and compared with the reference automaton; what exabgp() writes per state; SIGTERM / KeyboardInterrupt '
                'withdraw unconditionally; every emitted keyword is in the static route parser and the prefix is a v6 dispatch '
                'path. Also: the community announced per target x withdraw_on_down x community options. Not decided: timing, the external check command.'
                ' Round 3: module-level state tuples and hoisted locals are resolved; the as-path precedence (state-specific over generic) is evaluated over the four cases.'
                ' Round 4: the selector for 1 / 2 / 3 neighbors (F73 fixed) and every line exabgp(target) writes for 8 states x 5 option sets are obtained by evaluating the function on the syntax tree.'
                ' Round 5: the rise/fall automaton is decided by evaluating one() and trigger() on 768 cells (state x disabled x result x counter x thresholds x debounce) against the reference, not by extracting a table.',
        'note': _NOTE,
        'technique': 'decision-table extraction by exhaustive symbolic evaluation of the if-tree, writer/reader grammar table agreement',
    },
    'C13': {
        'text': 'Field-sensitive taint of the members holding text decoded from wire bytes; every value interpolated into a JSON '
                'fragment by the response encoders and by ~140 json() methods is int-like, closed-alphabet, a nested json() '
                'or sanitised (json.dumps/_string/hexstring); same for the Text/V4Text encoders with oneline/hexstring; the '
                'attribute key table is injective over renderable entries; everything written is ASCII (json.dumps keeps '
                'ensure_ascii, oneline confines to ASCII); no newline in JSON templates, envelope keys; every message kind has '
                'an emitter in each encoder class. One known finding (F9). Also: NO_GENERATION pseudo-attributes are rendered only for NEXT_HOP on request (evaluated over the cases); unsent bytes go back to the front of the write queue. Not decided: parseability of every nested fragment.'
                ' Round 3: fragment kinds (member vs value) of route json() and list contexts (F46 fixed); no strict codec in the encoders; bare JSON numbers are decimal.'
                ' Round 4: one member per attribute name (F68 fixed); per-process buffers die with the process (F69 fixed); each process gets the record of its own encoder.'
                ' Round 5: the dead fallback branch of the attribute JSON ladder is judged from the ladder as written.',
        'note': _NOTE,
        'technique': 'field-sensitive taint from decode sources + safe-string inference over f-string/format/% interpolations with mypy types, table injectivity, registry exhaustiveness',
    },
    'C01': {
        'text': 'Default attribute table (ORIGIN/AS_PATH/LOCAL_PREF per session type, local AS vs peer AS); ASPath.pack_attribute '
                'AS_TRANS/AS4_PATH structure; every make_aspath of caller-provided ASNs is 4 bytes wide; the ADD-PATH tables of '
                'all pack_nlri implementations agree and use the send direction; negotiated ADD-PATH directions; MP_REACH / '
                'MP_UNREACH layout and codes; next-hop self resolved before every RIB insertion into a fresh attribute '
                'collection. Not decided: value-level round trip of every route against an independent decoder.'
                ' Round 3: a default replaces only an absent attribute (membership / None test, not truthiness); negotiated local / peer AS are the true 4-byte values (shared C07.R3); collections that pack differently do not share an index (F45 fixed).'
                ' Round 4: only IPv4 unicast with an IPv4 next hop reaches the NLRI / withdrawn fields (one turn of the sorting loops evaluated per family, F64 fixed); no UPDATE without a route is emitted (F67 fixed).'
                ' Round 5: the message size the UPDATEs are packed for needs Extended Message in both OPENs (R13, shared with C07.R1).',
        'note': _NOTE,
        'technique': 'decision-table extraction from lambda/if trees compared with an RFC oracle, sibling table agreement, def-use provenance, constant folding',
    },
    'C02': {
        'text': 'Announce/withdraw label flow from the UPDATE sections and MP attributes to the lists, the constructor parameters, '
                'the JSON keys and the Adj-RIB-In calls; decoder Action and ADD-PATH direction (receive) per section; twin '
                'handlers identical in normal form; validator and lazy parser of MP_REACH walk the same offsets; next hop '
                'attribution (first address); AS_PATH/AS4_PATH merge slices and packing width. Also: the slices of the AS_PATH/AS4_PATH merge are bounded by lengths of the same segment kind; a block carrying MP attributes never enters the one-entry block cache (shared with C19). Not decided: field-by-field '
                'equality with a reference decoder.'
                ' Round 3: bit tests on the decode path can succeed (constant masks); the UPDATE handlers store each announced entry with its own next hop.'
                ' Round 4: the constant-family End-of-RIB answer follows a look at the MP attributes of the message; withdraws of an UPDATE are applied before its announces are stored (F66 fixed); next hop extraction evaluated on five families.',
        'note': _NOTE,
        'technique': 'flow-sensitive label propagation and reaching definitions, label-flow (taint-style) def-use tracking, sibling normal-form comparison, offset-sequence agreement, constant folding',
    },
    'C09': {
        'text': 'Budget expression as a linear form (msg_size - 23 - len(attr)); MP generator budgets subtract every buffer '
                'concatenated into the same yield; length predictors agree with writers on the 255 switch; buffers grow only '
                'under the room test; the prefix that triggers a split starts the next buffer; no room means no message. Not '
                'decided: the arithmetic at the 255/256 and 4096/65535 boundaries for all inputs. Also: a bare NLRI goes into the NLRI field only after looking at the route next hop; a buffer that went out is emptied before the next message that includes it.'
                ' Round 3: length predictors and header writers are evaluated on boundary values (sa/evalfn.py); the room tests are evaluated for -1 and 0; the pack_attribute flag is true whenever something is announced.'
                ' Round 4: (no new rule; the room formula caught its seed).',
        'note': _NOTE,
        'technique': 'linear-form normalisation, yield/budget name-set comparison, guard extraction, statement-order flow after yields',
    },
    'C11': {
        'text': 'replace_restart dominates the first send in _main and re-queues exactly the cached routes with force=True plus '
                'previous-minus-new withdraws; _reset reaches reset_rib; reset drains queues but keeps the cache; the automatic '
                'End-of-RIB is guarded by (generator exhausted and send_eor) and covers every negotiated family; withdraws always '
                'leave the cache. Not decided: every cut point between two messages.'
                ' Round 3: the per-family replay loops have no early exit; each shared RIB is emptied by its own adj-rib setting; swapped same-typed arguments.'
                ' Round 4: the link to the previous configuration is cut on every path before the first batch.',
        'note': _NOTE,
        'technique': 'dominance on the _main CFG, call-argument folding, guard-set comparison, def-use',
    },
    'C14': {
        'text': 'Every command handler (about 45, with the callback it schedules, the handlers it delegates to and the helpers '
                'that answer for it) gives exactly one terminal answer on every CFG path, exceptions included; RIB effects come '
                'after a non-empty parse result; the neighbour set of every effect derives from the selector-matched peers; '
                'an empty selector match is not widened to all peers; every selector term is tested; both line readers keep '
                'the unterminated tail and the queues are FIFO. Also: selector terms match as whole terms; received_async hands over one command per call. Not decided: arbitrary chunkings at run time, group mode semantics.'
                ' Round 3: Processes.answer() is data, not a terminal reply (F53 fixed); the scheduler never loses a popped entry (F47 fixed); no error answer after a RIB mutation in one callback (F51 fixed); no action chosen by a fall-back word (F52 fixed); a false partial() gives no route.'
                ' Round 4: what flush_write_queue takes from the head of a queue goes back to the head.'
                ' Round 6: dispatch_v6 and dispatch() share one notion of what a selector is (R11).',
        'note': _NOTE,
        'technique': 'path-sensitive count lattice {0,1,>=2} over handler CFGs with interprocedural summaries, def-use provenance of the peer set, sibling shape checks',
    },
    'C04': {
        'text': 'The two announce indexes of the outgoing RIB stay coherent (the previous occupant of a route index is removed '
                'from its own attribute group, keyed through _new_nlri); every queueing path reaches the matching cache '
                'update; updates() emits refresh < withdraw < announce; every queue is detached before the first yield and '
                'never touched through self across a suspension; in_cache compares attributes and next hop; who writes '
                'the tables (thorough). One known finding (F3) is listed. Also: one way into each queue (single writer), nothing emitted from one queue is filtered by another. Not decided: convergence over all histories.'
                ' Round 3: in_cache compares the NLRI bytes where index() is assembled from parts (F42 fixed); no attribute group is taken out of the announce queue; withdraws are held back for the first batch only.'
                ' Round 4: update_cache stores the route whatever the cache held.',
        'note': _NOTE,
        'technique': 'alias-aware def-use rules, CFG reachability/dominance between yield groups, must-pass-through on queueing paths',
    },
    'C07': {
        'text': 'Each negotiated option is set exactly under (sent AND received) of its own capability code; families/nexthop are '
                'members of both lists; hold time = min; ADD-PATH send/receive formulas with SEND=2/RECEIVE=1 and the '
                'IN/OUT mapping; both AS numbers get the AS_TRANS fix-up from their own OPEN; refusal subcodes per guard; '
                'pack_capabilities and Capabilities.unpack describe the same standard and RFC 9072 layouts; each capability '
                'is advertised under its own configuration flag. Also: the local AS never depends on what the peer announced; the iBGP test of the router-id collision uses the negotiated peer AS. Not decided: equality with an independent computation for '
                'arbitrary OPEN pairs.'
                ' Round 3: the family intersection is recognised as loop or comprehension; each capability is filled from its own neighbor list (addpaths / nexthops / families).'
                ' Round 4: refusals, ADD-PATH directions and capability TLVs are read from guard facts and written-out terms, not from nesting.'
                ' Round 6: the code octet written for a capability is the key it is stored under (R7).',
        'note': _NOTE,
        'technique': 'guard/term extraction into (side, capability) sets compared with an RFC oracle table, def-use, constant folding, writer/reader layout comparison',
    },
    'C03': {
        'text': 'Structural clauses decided from the source on every run: no call-graph cycle carrying peer data among the '
                'functions reachable from the message decoders (registry dispatch recognised), every `while <buffer>` '
                'decode loop shortens its buffer on every path (lower bounds folded, early-exit guards used), explicit '
                'non-Notify raises reachable from the decoders are limited to the triaged defensive guards (a new one '
                'fires), the last-resort barriers exist, unknown attributes are kept/ignored not refused. Also: the text of every Notify is ASCII whatever the peer sent (safe-string inference, class-hierarchy dive into __str__); no search of a message-built list inside a loop on the decode path; class-table lookups with a message-derived key are guarded. Not decided: '
                'implicit IndexError/struct.error on every read, the linear-time bound.'
                ' Round 3: call graph follows property getters (lazy parsers) and typing.Protocol implementers restricted to registered classes (731 decode-reachable functions); dict lookups with computed keys outside the barrier are guarded (F40 fixed); message classes sharing a TYPE agree on the attributes read after a cast (F41 fixed); octets handed to Notify as data are bounded while a strict decode logs them; the OPEN parameter codec (shared C07.R5).'
                ' Round 4: every next-hop length Family.size lists is accepted with and without RFC 8950 (F63 fixed); the OPENs are followed into RequirePath.setup.',
        'note': _NOTE,
        'technique': 'resolved call graph + SCC, syntax-directed loop-progress walk with interval lower bounds, interprocedural explicit exception flow with a frozen triage table',
    },
    'C05': {
        'text': 'FSM.transition within the RFC 4271 relation; every fsm.change site reached only in a state the table '
                'allows (path-sensitive propagation over the CFG with correlated guards and helper summaries); '
                'ESTABLISHED reached only after OPEN sent/recorded, peer OPEN read/recorded, validate_open, KEEPALIVE '
                'sent and read, on every path; senders of UPDATE/EOR/REFRESH/OPERATIONAL only below Peer._main; every '
                'move to IDLE paired with a closing call; up/down emission sites and their ordering in the failure arms. '
                'Not decided: real interleavings (second connection, task cancellation).'
                ' Round 3: change(OPENCONFIRM) follows validate_open on every path (event-order typestate for both transitions).'
                ' Round 4: one processes.up site per session, outside any loop; enum expansions and constant containers of states are resolved.',
        'note': _NOTE,
        'technique': 'per-function CFG + path-sensitive typestate propagation with correlated guards, call-graph who-may-call, dominance',
    },
    'C06': {
        'text': 'Twin readers agree check by check; the three header checks with their NotifyError codes precede the body '
                'read; constants and the per-type length table equal RFC 4271/2918; the accumulate-exactly-N loop shape '
                'of _reader_async; unknown type 1/3 and reader error re-raised unchanged; msg_size raised only from '
                'negotiated.msg_size after negotiated.received; no cancellable partial read that is then resumed. Not '
                'decided: behaviour under every actual segmentation (asyncio sock_recv_into contract trusted).'
                ' Round 3: no message leaves the reader between the header read and the per-type length check.'
                ' Round 4: length and type decoded as unsigned octets 16-17 and octet 18 (both readers evaluated on two headers); Message.Length entries classified by evaluation.'
                ' Round 5: the error the reader hands back is tested on every path before anything leaves read_message.',
        'note': _NOTE,
        'technique': 'decision-plan extraction + sibling comparison, constant folding, def-use shape check of the read loop',
    },
    'C10': {
        'text': 'Every literal NOTIFICATION (code, subcode) in the tree (about 250 sites) is in the repository table, itself '
                'within the RFC table; error class by place; a received NOTIFICATION is never answered; in the except '
                'Notify arm the NOTIFICATION is written at most once, then reset, nothing after (path-sensitive count); '
                'every registered message type is handled or refused in ESTABLISHED. Also: a NOTIFICATION is written only from the except Notify arm; framing errors are handed back with the transport open; every refusal generator that is built is iterated or scheduled. Not decided: the bytes written in '
                'every state/fault combination.'
                ' Round 3: the Notify text rule is shared (C10.R8): a Notify that can not be built is answered 1/0 instead of its own class.'
                ' Round 4: the TimeoutError arm of a timed read stands where the expiry is raised and raises Notify; cease subcodes kept on the object are checked at every store.'
                ' Round 6: no catch-all handler replaces a Notify raised below it by another constant Notify (R10).',
        'note': _NOTE,
        'technique': 'constant folding of all Notify sites, explicit exception flow, path-sensitive count lattice over the handler CFG, registry exhaustiveness',
    },
    'C12': {
        'text': 'Wiring and constants only: expiry raise guarded by (now - last_read) > holdtime with the zero hold time '
                'returning first and last_read refreshed only by real messages; keepalive = holdtime/3 and need_ka firing '
                'rule; both timer calls unconditional in every main-loop iteration before outbound work; bounded outbound '
                'batch; open wait -> 5/1. No statement about real time is decided.'
                ' Round 3: need_ka is evaluated for clock values before / at / after the due time; every definition of the batch size folds to a small constant.'
                ' Round 4: the receive timer takes the hold time of each session; keepalive() evaluated for four hold times.',
        'note': _NOTE,
        'technique': 'guard extraction + def-use on the timer functions, loop-body position/dominance, constant folding',
    },
    'C08': {
        'text': 'Structural clauses of RFC 7606 handling decided on every run from the source: the treat-as-withdraw '
                'marker is consumed before the announce sinks, the attribute walk checks the declared length against '
                'what is left, every registered attribute has a disposition (flag folded through the MRO or only '
                'Notify(3,x) escapes), both failure arms of the walk honour both flags, discard continues the walk, '
                'the RFC 7606 section 7 class table. Also: a malformed block neither enters the block memo nor leaves its key pointing at an older collection. Not decided: which malformed values each decoder recognises.'
                ' Round 3: the except arms are evaluated for the three RFC 7606 classes (shape independent); every path through the zero-length branch ends in a marker; nested declared lengths in the attribute decoders are compared with what is left (F43 fixed).'
                ' Round 4: a registered code with unregistered flags is handled in the flags-error branch and never reaches the unknown-attribute tail.'
                ' Round 6: the per-attribute cache serves no class whose decoder reads the session (R11, shared with C15.R13 / C19.R8).',
        'note': _NOTE,
        'technique': 'AST pattern + resolved-callee rules, constant folding of class flags through the MRO, interprocedural explicit exception flow',
    },
}

NOT_APPLICABLE = {}
for _i in range(1, 21):
    _p = 'C%02d' % _i
    if _p not in CLAIMS:
        NOT_APPLICABLE[_p] = 'check under construction in this session (rules designed in DESIGN.md section 3, not yet armed); not claimed until its check exists and is silent on the unchanged tree'
