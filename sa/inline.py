"""Inlining of helper functions the rules do not know.

Extract-method is the commonest behaviour-preserving edit: a few statements of an analysed function move into a new
private helper.  The rules were written against the functions that exist on the confirmed tree (sa/known_funcs.txt,
frozen by tools/freeze_known_funcs.py).  A call to a function that is NOT in that list - a helper that appeared later -
is expanded in the caller before any rule runs, so every rule sees the statements where they used to be.  Nothing is
inlined on the confirmed tree itself (every function is known there).

What is inlined: calls resolved (by mypy, or by name for `self.x()` / `cls.x()` / `x()` when unambiguous) to exactly one
unknown function of the same module; the helper must not be a generator, must not be recursive, and takes no *args /
**kwargs.  Forms:

  expression helper  (body is one `return <expr>`)      -> the call is replaced by <expr> with parameters substituted
  statement helper   (call is a whole statement, or the whole right-hand side / returned value)
                     -> the body is spliced in; `return X` at tail positions becomes `target = X`

Nodes copied from the helper keep their source positions, so the mypy side tables (keyed by position in the same module)
still resolve calls inside the inlined body.
"""

from __future__ import annotations

import ast
import copy
import os
from typing import Callable

KNOWN_FILE = os.path.join(os.path.dirname(os.path.abspath(__file__)), 'known_funcs.txt')
MAX_STMTS = 60
MAX_DEPTH = 3


def load_known() -> set[str] | None:
    if not os.path.exists(KNOWN_FILE):
        return None
    with open(KNOWN_FILE) as fh:
        return {l.strip() for l in fh if l.strip() and not l.startswith('#')}


def _strip_doc(body: list[ast.stmt]) -> list[ast.stmt]:
    if body and isinstance(body[0], ast.Expr) and isinstance(body[0].value, ast.Constant) and isinstance(body[0].value.value, str):
        return body[1:]
    return body


def _walk_own(fn: ast.AST):  # noqa: ANN201
    """nodes of a function, not those of the functions and classes nested in it"""
    todo = list(ast.iter_child_nodes(fn))
    while todo:
        n = todo.pop()
        yield n
        if not isinstance(n, (ast.FunctionDef, ast.AsyncFunctionDef, ast.Lambda, ast.ClassDef)):
            todo.extend(ast.iter_child_nodes(n))


def _is_generator(fn: ast.AST) -> bool:
    stack = list(fn.body)  # type: ignore[attr-defined]
    while stack:
        n = stack.pop()
        if isinstance(n, (ast.Yield, ast.YieldFrom)):
            return True
        if isinstance(n, (ast.FunctionDef, ast.AsyncFunctionDef, ast.ClassDef, ast.Lambda)):
            continue
        stack.extend(ast.iter_child_nodes(n))
    return False


def _count(body: list[ast.stmt]) -> int:
    return sum(1 for st in body for n in ast.walk(st) if isinstance(n, ast.stmt))


def _tail_returns_only(body: list[ast.stmt]) -> bool:
    """every `return` is the last statement of the body, or of a branch of a trailing if/else (recursively)."""

    def no_return(sts: list[ast.stmt]) -> bool:
        for st in sts:
            for n in ast.walk(st):
                if isinstance(n, ast.Return):
                    return False
                if isinstance(n, (ast.FunctionDef, ast.AsyncFunctionDef, ast.Lambda)):
                    pass
        return True

    if not body:
        return True
    *init, last = body
    if not no_return(init):
        return False
    if isinstance(last, ast.Return):
        return True
    if isinstance(last, ast.If):
        return _tail_returns_only(last.body) and _tail_returns_only(last.orelse)
    return no_return([last])


def _tailify(body: list[ast.stmt], cont: list[ast.stmt], budget: list[int]) -> list[ast.stmt] | None:
    """Any if-structured body -> the same behaviour with returns in tail position only: what follows an `if` that may
    return is copied to the end of each of its paths that falls through (loops / try / with containing a return: None)."""
    if not body:
        return [copy.deepcopy(x) for x in cont]
    st, rest = body[0], body[1:]
    budget[0] -= 1
    if budget[0] < 0:
        return None
    if isinstance(st, ast.Return):
        return [st]
    if isinstance(st, ast.If) and any(isinstance(n, ast.Return) for n in ast.walk(st)):
        k = _tailify(rest, cont, budget)
        if k is None:
            return None
        yes = _tailify(st.body, k, budget)
        no = _tailify(st.orelse, k, budget)
        if yes is None or no is None:
            return None
        new = ast.If(test=st.test, body=yes or [ast.Pass()], orelse=no)
        return [ast.copy_location(new, st)]
    if any(isinstance(n, ast.Return) for n in ast.walk(st)):
        return None
    tail = _tailify(rest, cont, budget)
    return None if tail is None else [st] + tail


def _early_exit_form(body: list[ast.stmt]) -> list[ast.stmt] | None:
    """`if c: return X` guards followed by more code -> nested if/else with tail returns (behaviour preserving)."""
    first = _early_exit_form_simple(body)
    if first is not None:
        return first
    out = _tailify(body, [], [60])
    return out if out is not None and _tail_returns_only(out) else None


def _early_exit_form_simple(body: list[ast.stmt]) -> list[ast.stmt] | None:
    out: list[ast.stmt] = []
    for i, st in enumerate(body):
        if isinstance(st, ast.If) and not st.orelse and st.body and isinstance(st.body[-1], ast.Return) and not any(isinstance(n, ast.Return) for s in st.body[:-1] for n in ast.walk(s)):
            rest = _early_exit_form_simple(body[i + 1 :])
            if rest is None:
                return None
            new = ast.If(test=st.test, body=st.body, orelse=rest or [ast.Pass()])
            ast.copy_location(new, st)
            out.append(new)
            return out if _tail_returns_only(out) else None
        out.append(st)
    return out if _tail_returns_only(out) else None


class _Subst(ast.NodeTransformer):
    def __init__(self, mapping: dict[str, ast.AST], rename: dict[str, str]) -> None:
        self.mapping = mapping
        self.rename = rename

    def visit_Name(self, n: ast.Name) -> ast.AST:
        if n.id in self.mapping and isinstance(n.ctx, ast.Load):
            return copy.deepcopy(self.mapping[n.id])
        if n.id in self.rename:
            return ast.copy_location(ast.Name(id=self.rename[n.id], ctx=n.ctx), n)
        return n

    def visit_FunctionDef(self, n: ast.FunctionDef) -> ast.AST:
        return n

    visit_AsyncFunctionDef = visit_FunctionDef  # type: ignore[assignment]

    def visit_Lambda(self, n: ast.Lambda) -> ast.AST:
        inner = {a.arg for a in n.args.args}
        sub = _Subst({k: v for k, v in self.mapping.items() if k not in inner}, {k: v for k, v in self.rename.items() if k not in inner})
        n.body = sub.visit(n.body)
        return n


def _unroll_literal_loops(body: list[ast.stmt]) -> list[ast.stmt]:
    """`for h in (a, b): if h.takes(x): ...; return` - a loop over a literal of names that returns from inside, which no
    early-exit rewriting can turn into tail returns - is written out, one copy of the body per element (the loop variable
    must not be stored in the body nor read after the loop; no break / continue / else)"""
    out: list[ast.stmt] = []
    for i, st in enumerate(body):
        later = {n.id for x in body[i + 1 :] for n in ast.walk(x) if isinstance(n, ast.Name)}
        if (
            isinstance(st, ast.For)
            and not st.orelse
            and isinstance(st.target, ast.Name)
            and isinstance(st.iter, (ast.Tuple, ast.List))
            and 1 <= len(st.iter.elts) <= 6
            and all(isinstance(e, ast.Constant) or _dotted_chain(e) for e in st.iter.elts)
            and any(isinstance(n, ast.Return) for n in ast.walk(st))
            and not any(isinstance(n, (ast.Break, ast.Continue, ast.FunctionDef, ast.AsyncFunctionDef, ast.Lambda)) for n in ast.walk(st))
            and not any(isinstance(n, ast.Name) and isinstance(n.ctx, ast.Store) and n.id == st.target.id for b in st.body for n in ast.walk(b))
            and st.target.id not in later
        ):
            for e in st.iter.elts:
                for b in st.body:
                    out.append(_Subst({st.target.id: e}, {}).visit(copy.deepcopy(b)))
        else:
            out.append(st)
    return out


def _ladder(body: list[ast.stmt]) -> list[ast.stmt] | None:
    """straight-line statements followed by `if c: return a` guards and a final `return z` -> the same with one
    `return a if c else (... z)`"""
    i = 0
    while i < len(body) and not isinstance(body[i], (ast.If, ast.Return)):
        i += 1
    lead, rest = body[:i], body[i:]
    if len(rest) < 2 or not isinstance(rest[-1], ast.Return) or rest[-1].value is None:
        return None
    expr: ast.expr = rest[-1].value
    for st in reversed(rest[:-1]):
        if isinstance(st, ast.If) and len(st.body) == 1 and isinstance(st.body[0], ast.Return) and st.body[0].value is not None and not st.orelse:
            expr = ast.copy_location(ast.IfExp(test=st.test, body=st.body[0].value, orelse=expr), st)
        elif isinstance(st, ast.If) and len(st.body) == 1 and isinstance(st.body[0], ast.Return) and st.body[0].value is not None and len(st.orelse) == 1 and isinstance(st.orelse[0], ast.Return) and st is rest[-2] and False:
            return None
        else:
            return None
    ret = ast.copy_location(ast.Return(value=expr), rest[-1])
    return lead + [ret]


def _dotted_chain(v: ast.AST) -> bool:
    while isinstance(v, ast.Attribute):
        v = v.value
    return isinstance(v, ast.Name)


def _bind(fn: ast.AST, call: ast.Call, receiver: ast.AST | None, is_static: bool, is_class: bool, caller_is_method: bool) -> tuple[dict[str, ast.AST], list[ast.stmt]] | None:
    """parameter -> argument expression; arguments that are not simple are bound through a temporary assignment"""
    a = fn.args  # type: ignore[attr-defined]
    if a.vararg or a.kwarg or any(isinstance(x, ast.Starred) for x in call.args) or any(k.arg is None for k in call.keywords):
        return None
    params = [p.arg for p in a.posonlyargs + a.args]
    mapping: dict[str, ast.AST] = {}
    if receiver is not None and not is_static and params:
        first = params.pop(0)
        if is_class:
            mapping[first] = receiver if isinstance(receiver, ast.Name) and receiver.id == 'cls' else ast.Attribute(value=receiver, attr='__class__', ctx=ast.Load())
        else:
            mapping[first] = receiver
    if len(call.args) > len(params):
        return None
    for p, v in zip(params, call.args):
        mapping[p] = v
    for k in call.keywords:
        mapping[k.arg] = k.value  # type: ignore[index]
    defaults = dict(zip([p.arg for p in (a.posonlyargs + a.args)][-len(a.defaults) :] if a.defaults else [], a.defaults))
    for p in params:
        if p not in mapping:
            if p in defaults:
                mapping[p] = defaults[p]
            else:
                return None
    for p, d in zip(a.kwonlyargs, a.kw_defaults):
        if p.arg not in mapping:
            if d is None:
                return None
            mapping[p.arg] = d
    pre: list[ast.stmt] = []
    uses: dict[str, int] = {}
    for st in fn.body:  # type: ignore[attr-defined]
        for n in ast.walk(st):
            if isinstance(n, ast.Name) and isinstance(n.ctx, ast.Load):
                uses[n.id] = uses.get(n.id, 0) + 1
    stored = {n.id for st in fn.body for n in ast.walk(st) if isinstance(n, ast.Name) and isinstance(n.ctx, ast.Store)}  # type: ignore[attr-defined]
    for p, v in list(mapping.items()):
        simple = isinstance(v, ast.Constant) or _dotted_chain(v) or uses.get(p, 0) <= 1
        if not simple or p in stored:
            # keep the parameter as a local of the caller:  p = <argument>
            asg = ast.Assign(targets=[ast.Name(id=p, ctx=ast.Store())], value=v, type_comment=None)
            ast.copy_location(asg, call)
            ast.fix_missing_locations(asg)
            pre.append(asg)
            del mapping[p]
    return mapping, pre


def _has_return(st: ast.AST) -> bool:
    return any(isinstance(n, ast.Return) for n in ast.walk(st))


def _retarget(body: list[ast.stmt], make: Callable[[ast.AST | None, ast.AST], list[ast.stmt]], need_value: bool, anchor: ast.AST) -> list[ast.stmt]:
    """replace the tail returns of a tail-return body; a path that falls off the end yields None when a value is needed"""
    if not body:
        return make(None, anchor) if need_value else []
    *init, last = body
    if isinstance(last, ast.Return):
        return init + make(last.value, last)
    if isinstance(last, ast.If) and _has_return(last):
        new = ast.If(test=last.test, body=_retarget(last.body, make, need_value, last) or [ast.Pass()], orelse=_retarget(last.orelse, make, need_value, last))
        ast.copy_location(new, last)
        return init + [new]
    if isinstance(last, ast.Raise):
        return body
    return body + (make(None, last) if need_value else [])


class Inliner:
    def __init__(self, model, known: set[str]) -> None:  # noqa: ANN001
        self.model = model
        self.known = known
        self.unknown = {q: fi for q, fi in model.funcs.items() if q.split('#')[0] not in known}
        self.inlined: list[str] = []
        self.skipped: list[str] = []

    # ------------------------------------------------------------------ resolution
    def _target(self, fi, call: ast.Call):  # noqa: ANN001
        """the single unknown function this call lands in (same module), with its receiver expression"""
        cands = []
        try:
            cs = self.model.callees(fi.module, call) if self.model.bridge is not None else []
        except Exception:  # noqa: BLE001
            cs = []
        for c in cs:
            if c in self.unknown:
                cands.append(c)
        if not cands:
            name = None
            if isinstance(call.func, ast.Attribute) and isinstance(call.func.value, ast.Name) and call.func.value.id in ('self', 'cls'):
                name = call.func.attr
            elif isinstance(call.func, ast.Attribute) and fi.cls is not None and isinstance(call.func.value, ast.Name) and call.func.value.id == fi.cls.qualname.rsplit('.', 1)[-1]:
                name = call.func.attr
            elif isinstance(call.func, ast.Name):
                name = call.func.id
            if name is not None:
                for q, u in self.unknown.items():
                    if q.rsplit('.', 1)[-1] != name or u.module is not fi.module:
                        continue
                    if isinstance(call.func, ast.Attribute):
                        if u.cls is not None and fi.cls is not None and (u.cls is fi.cls or u.cls.qualname in (fi.cls.mro or [])) and u.parent is None:
                            cands.append(q)
                    else:
                        # plain name: a module-level function, or a closure of the caller / of an enclosing function
                        if (u.cls is None and u.parent is None) or u.parent is fi or (fi.parent is not None and u.parent is fi.parent) or (u.parent is not None and _encloses(u.parent, fi)):
                            cands.append(q)
        cands = sorted(set(cands))
        if len(cands) != 1:
            return None
        u = self.unknown[cands[0]]
        if u is fi:
            return None
        receiver = call.func.value if isinstance(call.func, ast.Attribute) else None
        return u, receiver

    # ------------------------------------------------------------------ one function
    def expand(self, fi, depth: int = 0) -> bool:  # noqa: ANN001
        if depth >= MAX_DEPTH:
            return False
        changed = False
        fn = fi.node
        used = {n.id for n in ast.walk(fn) if isinstance(n, ast.Name)} | {a.arg for a in ast.walk(fn) if isinstance(a, ast.arg)}

        def helper_body(u, call: ast.Call, receiver, same: set[str] = frozenset(), allow_gen: bool = False):  # noqa: ANN001
            un = u.node
            if (_is_generator(un) and not allow_gen) or (isinstance(un, ast.AsyncFunctionDef) and not isinstance(fn, ast.AsyncFunctionDef)):
                return None
            decos = {ast.unparse(d).split('(')[0] for d in un.decorator_list}
            if decos - {'staticmethod', 'classmethod'}:
                return None
            body = _strip_doc(un.body)
            if _count(body) > MAX_STMTS:
                return None
            if any(isinstance(n, ast.Call) and self._same(u, n) for st in body for n in ast.walk(st)):
                return None  # recursive
            b = _bind(un, call, receiver, 'staticmethod' in decos, 'classmethod' in decos, fi.cls is not None)
            if b is None:
                return None
            mapping, pre = b
            stored = {n.id for st in body for n in ast.walk(st) if isinstance(n, ast.Name) and isinstance(n.ctx, ast.Store)}
            params = {p.arg for p in un.args.posonlyargs + un.args.args + un.args.kwonlyargs}
            # locals of the helper that collide with unrelated names of the caller get a suffix
            arg_names = {n.id for v in list(mapping.values()) + [p.value for p in pre] for n in ast.walk(v) if isinstance(n, ast.Name)}
            rename = {s: s + '__' + un.name.strip('_') for s in stored - params if s in used and s not in arg_names and s not in same}
            body = [copy.deepcopy(st) for st in body]
            if u.module is not fi.module:
                for st in body:
                    for x in ast.walk(st):
                        x._orig_mod = u.module.rel  # type: ignore[attr-defined]
            body = [_Subst(mapping, rename).visit(st) for st in body]
            body = _unroll_literal_loops(body)
            return body, pre

        def splice(stmts: list[ast.stmt]) -> list[ast.stmt]:
            nonlocal changed
            out: list[ast.stmt] = []
            for st in stmts:
                # recurse into compound statements first
                for f in ('body', 'orelse', 'finalbody'):
                    if hasattr(st, f) and isinstance(getattr(st, f), list) and not isinstance(st, (ast.FunctionDef, ast.AsyncFunctionDef, ast.ClassDef)):
                        setattr(st, f, splice(getattr(st, f)))
                if isinstance(st, ast.Try):
                    for h in st.handlers:
                        h.body = splice(h.body)
                # `if helper(...):` where the helper answers True / False at the end of each of its paths: the branch
                # bodies move to where the helper returned
                if isinstance(st, ast.If):
                    test, neg = st.test, False
                    if isinstance(test, ast.UnaryOp) and isinstance(test.op, ast.Not):
                        test, neg = test.operand, True
                    if isinstance(test, ast.Await):
                        test = test.value
                    if isinstance(test, ast.Call):
                        t = self._target(fi, test)
                        hb = helper_body(t[0], test, t[1]) if t is not None else None
                        if hb is not None:
                            body, pre = hb
                            if not _tail_returns_only(body):
                                body = _early_exit_form(body) or body
                            rets = [n for b in body for n in ast.walk(b) if isinstance(n, ast.Return)]
                            if len(rets) > 1 and _tail_returns_only(body) and all(isinstance(r.value, ast.Constant) and isinstance(r.value.value, bool) for r in rets):
                                yes, no = (st.orelse, st.body) if neg else (st.body, st.orelse)

                                def make_b(v: ast.AST | None, r: ast.AST, yes=yes, no=no) -> list[ast.stmt]:  # noqa: ANN001
                                    src = yes if (isinstance(v, ast.Constant) and v.value is True) else no
                                    return [copy.deepcopy(x) for x in src]

                                new_body = _retarget(body, make_b, True, st)
                                for x in pre + new_body:
                                    ast.fix_missing_locations(x)
                                _relocate(pre + new_body, st)
                                out.extend(pre + new_body)
                                changed = True
                                self.inlined.append('%s -> %s (branching)' % (t[0].qualname, fi.qualname))
                                continue
                # `yield from helper(...)` as a whole statement, the helper a generator that never returns early: its
                # statements (yields included) run where the delegation stood
                if isinstance(st, ast.Expr) and isinstance(st.value, ast.YieldFrom) and isinstance(st.value.value, ast.Call):
                    gcall = st.value.value
                    t = self._target(fi, gcall)
                    if t is not None and _is_generator(t[0].node) and not isinstance(t[0].node, ast.AsyncFunctionDef) and not any(isinstance(n, ast.Return) for n in _walk_own(t[0].node)):
                        hb = helper_body(t[0], gcall, t[1], allow_gen=True)
                        if hb is not None:
                            body, pre = hb
                            for x in pre + body:
                                ast.fix_missing_locations(x)
                            _relocate(pre + body, st)
                            out.extend(pre + body)
                            changed = True
                            self.inlined.append('%s -> %s (yield from)' % (t[0].qualname, fi.qualname))
                            continue
                call, kind = _whole_call(st)
                if call is not None:
                    t = self._target(fi, call)
                    if t is not None:
                        # a helper local with the very name the result is assigned to is that variable
                        tg_names = {x.id for x in ast.walk(st) if isinstance(x, ast.Name) and isinstance(x.ctx, ast.Store)} if kind == 'assign' else set()
                        hb = helper_body(t[0], call, t[1], tg_names)
                        if hb is not None:
                            body, pre = hb
                            if not _tail_returns_only(body):
                                body2 = _early_exit_form(body)
                                if body2 is None:
                                    self.skipped.append('%s in %s: returns in the middle' % (t[0].qualname, fi.qualname))
                                    out.append(st)
                                    continue
                                body = body2

                            def make(v: ast.AST | None, r: ast.AST, st=st, kind=kind) -> list[ast.stmt]:  # noqa: ANN001
                                if kind == 'expr':
                                    if v is None or isinstance(v, (ast.Constant, ast.Name)):
                                        return []
                                    e = ast.Expr(value=v)
                                    return [ast.copy_location(e, r)]
                                if kind == 'return':
                                    return [ast.copy_location(ast.Return(value=v), r)]
                                new = copy.copy(st)
                                new.value = v if v is not None else ast.Constant(None)  # type: ignore[attr-defined]
                                return [ast.copy_location(new, r)]

                            new_body = _retarget(body, make, kind in ('assign', 'return'), st)
                            for x in pre + new_body:
                                ast.fix_missing_locations(x)
                            _relocate(pre + new_body, st)
                            out.extend(pre + new_body)
                            changed = True
                            self.inlined.append('%s -> %s' % (t[0].qualname, fi.qualname))
                            continue
                # expression helpers anywhere inside the statement
                hoisted: list[ast.stmt] = []
                st2 = self._inline_exprs(fi, st, helper_body, hoisted if isinstance(st, (ast.Expr, ast.Assign, ast.AugAssign, ast.AnnAssign, ast.Return, ast.Raise, ast.If, ast.Assert)) else None)
                if st2 is not st:
                    changed = True
                for x in hoisted:
                    ast.fix_missing_locations(x)
                _relocate(hoisted, st)
                out.extend(hoisted)
                out.append(st2)
            return out

        fn.body = splice(fn.body)
        if changed:
            ast.fix_missing_locations(fn)
            self.expand(fi, depth + 1)
        return changed

    def _same(self, u, call: ast.Call) -> bool:  # noqa: ANN001
        nm = u.node.name
        f = call.func
        return (isinstance(f, ast.Name) and f.id == nm) or (isinstance(f, ast.Attribute) and f.attr == nm and isinstance(f.value, ast.Name) and f.value.id in ('self', 'cls'))

    def _inline_exprs(self, fi, st: ast.stmt, helper_body, hoist: list | None = None):  # noqa: ANN001
        inl = self
        hit = False

        class T(ast.NodeTransformer):
            def visit_FunctionDef(self, n):  # noqa: ANN001
                return n

            visit_AsyncFunctionDef = visit_FunctionDef
            visit_ClassDef = visit_FunctionDef

            def visit_Call(self, n: ast.Call) -> ast.AST:
                nonlocal hit
                self.generic_visit(n)
                t = inl._target(fi, n)
                if t is None:
                    return n
                hb = helper_body(t[0], n, t[1])
                if hb is None:
                    return n
                body, pre = hb
                # `if c: return a` ... `return z`  ->  a if c else (... z)
                lad = _ladder(body)
                if lad is not None:
                    body = lad
                if not body or not isinstance(body[-1], ast.Return) or body[-1].value is None:
                    return n
                lead = pre + body[:-1]
                if lead:
                    # straight-line helper in expression context: its statements are hoisted in front of the statement
                    if hoist is None or any(isinstance(x, ast.Return) for b in lead for x in ast.walk(b)) or not all(isinstance(b, (ast.Assign, ast.AnnAssign, ast.AugAssign, ast.Expr, ast.Assert)) for b in lead):
                        return n
                    hoist.extend(lead)
                hit = True
                inl.inlined.append('%s -> %s (expression)' % (t[0].qualname, fi.qualname))
                wrap = ast.Expr(value=body[-1].value)
                ast.copy_location(wrap, body[-1])
                _relocate([wrap], n)
                return wrap.value

            def visit_Await(self, n: ast.Await) -> ast.AST:
                self.generic_visit(n)
                # `await helper()` whose helper was `return await x` / `return x`
                return n

        # only look below the statement's own expressions (compound bodies were handled by splice)
        for f, v in list(ast.iter_fields(st)):
            if f in ('body', 'orelse', 'finalbody', 'handlers'):
                continue
            if isinstance(v, ast.AST):
                setattr(st, f, T().visit(v))
            elif isinstance(v, list):
                setattr(st, f, [T().visit(x) if isinstance(x, ast.AST) else x for x in v])
        if hit:
            new = copy.copy(st)
            return new
        return st


def _relocate(stmts: list[ast.stmt], site: ast.AST, origin: str | None = None) -> None:
    """spliced statements sit, for every ordering purpose, at the line of the call they replace (fractions keep their
    own order); the position in the source file, which the mypy side tables are keyed by, moves to _orig_pos"""
    base = site.lineno  # type: ignore[attr-defined]
    end = getattr(site, 'end_lineno', base) or base
    k = 0

    def in_source_order(n: ast.AST):  # noqa: ANN202
        # depth first, children in field order: the order of the text (ast.walk is breadth first)
        yield n
        for c in ast.iter_child_nodes(n):
            yield from in_source_order(c)

    for st in stmts:
        for n in in_source_order(st):
            if hasattr(n, 'lineno'):
                if getattr(n, '_orig_pos', None) is None:
                    n._orig_pos = (n.lineno, n.col_offset, getattr(n, 'end_lineno', None), getattr(n, 'end_col_offset', None))  # type: ignore[attr-defined]
                    if getattr(n, '_orig_mod', None) is None and origin is not None and not getattr(n, '_from_caller', False):
                        n._orig_mod = origin  # type: ignore[attr-defined]
                k += 1
                n.lineno = base + min(k, 9999) * 1e-5  # type: ignore[attr-defined]
                n.end_lineno = max(end, n.lineno)  # type: ignore[attr-defined]


def _encloses(outer, inner) -> bool:  # noqa: ANN001
    p = inner.parent
    while p is not None:
        if p is outer:
            return True
        p = p.parent
    return False


def _whole_call(st: ast.stmt) -> tuple[ast.Call | None, str]:
    v = None
    kind = ''
    if isinstance(st, ast.Expr):
        v, kind = st.value, 'expr'
    elif isinstance(st, ast.Assign) and len(st.targets) == 1:
        v, kind = st.value, 'assign'
    elif isinstance(st, ast.AnnAssign) and st.value is not None:
        v, kind = st.value, 'assign'
    elif isinstance(st, ast.Return) and st.value is not None:
        v, kind = st.value, 'return'
    if isinstance(v, ast.Await):
        v = v.value
    if isinstance(v, ast.Call):
        return v, kind
    return None, ''


ALIASES_FILE = os.path.join(os.path.dirname(os.path.abspath(__file__)), 'known_aliases.txt')


def constant_aliases(fn: ast.AST) -> dict[str, ast.expr]:
    """Locals of `fn` that are bound exactly once, by a plain assignment, to a named constant: a dotted chain
    (`Capability.CODE.EXTENDED_MESSAGE`, `Message.HEADER_LEN`) whose root is not a local of the function and whose last
    part is upper-case.  Reading such a local is reading the constant."""
    a = fn.args  # type: ignore[attr-defined]
    params = {x.arg for x in a.posonlyargs + a.args + a.kwonlyargs} | ({a.vararg.arg} if a.vararg else set()) | ({a.kwarg.arg} if a.kwarg else set())
    stores: dict[str, int] = {}
    cands: dict[str, ast.expr] = {}
    nested_bound: set[str] = set()
    for n in ast.walk(fn):
        if n is not fn and isinstance(n, (ast.FunctionDef, ast.AsyncFunctionDef, ast.Lambda)):
            na = n.args
            nested_bound |= {x.arg for x in na.posonlyargs + na.args + na.kwonlyargs}
        if isinstance(n, (ast.Global, ast.Nonlocal)):
            nested_bound |= set(n.names)
        if isinstance(n, ast.Name) and isinstance(n.ctx, (ast.Store, ast.Del)):
            stores[n.id] = stores.get(n.id, 0) + 1
    for st in _walk_own(fn):
        if not isinstance(st, (ast.Assign, ast.AnnAssign)):
            continue
        tg = st.targets[0] if isinstance(st, ast.Assign) and len(st.targets) == 1 else st.target if isinstance(st, ast.AnnAssign) else None
        v = getattr(st, 'value', None)
        base = v.value if isinstance(v, ast.Subscript) and isinstance(v.slice, ast.Constant) and isinstance(v.slice.value, int) else v
        if isinstance(tg, ast.Name) and isinstance(base, ast.Attribute) and _dotted_chain(base) and base.attr.isupper():
            cands[tg.id] = v
    local = set(stores) | params
    out = {}
    for nm, v in cands.items():
        root = v.value if isinstance(v, ast.Subscript) else v
        while isinstance(root, ast.Attribute):
            root = root.value
        # a constant of the class read through the instance (self.LIMIT) is as constant as Class.LIMIT
        outside = root.id not in local or root.id in ('self', 'cls')  # type: ignore[attr-defined]
        if stores.get(nm) == 1 and nm not in params and nm not in nested_bound and outside:
            out[nm] = v
    return out


def load_known_aliases() -> set[str]:
    if not os.path.exists(ALIASES_FILE):
        return set()
    with open(ALIASES_FILE) as fh:
        return {l.strip() for l in fh if l.strip() and not l.startswith('#')}


class _AliasSubst(ast.NodeTransformer):
    def __init__(self, mapping: dict[str, ast.expr]) -> None:
        self.mapping = mapping
        self.n = 0

    def visit_Name(self, n: ast.Name) -> ast.AST:
        if isinstance(n.ctx, ast.Load) and n.id in self.mapping:
            new = copy.deepcopy(self.mapping[n.id])
            for x in ast.walk(new):
                if hasattr(x, 'lineno'):
                    if getattr(x, '_orig_pos', None) is None:
                        x._orig_pos = (x.lineno, x.col_offset, getattr(x, 'end_lineno', None), getattr(x, 'end_col_offset', None))  # type: ignore[attr-defined]
                    x.lineno, x.col_offset = n.lineno, n.col_offset  # type: ignore[attr-defined]
                    x.end_lineno, x.end_col_offset = getattr(n, 'end_lineno', n.lineno), getattr(n, 'end_col_offset', n.col_offset)  # type: ignore[attr-defined]
            self.n += 1
            return new
        return n


TUPLES_FILE = os.path.join(os.path.dirname(os.path.abspath(__file__)), 'known_tuple_assigns.txt')


def _shape(st: ast.AST) -> str:
    """the statement with every plain name written `_`: the key of the frozen list must survive a renaming of locals"""
    c = copy.deepcopy(st)
    for x in ast.walk(c):
        if isinstance(x, ast.Name):
            x.id = '_'
    return ast.unparse(c)


def tuple_assigns(model) -> list[str]:  # noqa: ANN001
    out = []
    for q, fi in model.funcs.items():
        if isinstance(fi.node, ast.Lambda):
            continue
        for st in _walk_own(fi.node):
            if isinstance(st, ast.Assign) and len(st.targets) == 1 and isinstance(st.targets[0], ast.Tuple) and isinstance(st.value, (ast.Tuple, ast.Attribute)):
                out.append('%s\t%s' % (q.split('#')[0], _shape(st)))
    return sorted(set(out))


def load_known_tuple_assigns() -> set[str]:
    if not os.path.exists(TUPLES_FILE):
        return set()
    with open(TUPLES_FILE) as fh:
        return {l.rstrip('\n') for l in fh if l.strip() and not l.startswith('#')}


def split_tuple_assigns(model) -> int:  # noqa: ANN001
    """`a, b = x, y` is written out as `a = x; b = y` when that means the same: no later right-hand side reads an earlier
    target (so not for swaps).  `self.previous, self.current = self.current, {}` then shows the two stores the rules know."""
    n = 0
    current = ['']
    known: set[str] = set()

    def reads(e: ast.AST) -> set[str]:
        return {ast.unparse(x) for x in ast.walk(e) if isinstance(x, (ast.Name, ast.Attribute, ast.Subscript))}

    def split(body: list[ast.stmt]) -> list[ast.stmt]:
        nonlocal n
        out: list[ast.stmt] = []
        for st in body:
            for f in ('body', 'orelse', 'finalbody'):
                if hasattr(st, f) and isinstance(getattr(st, f), list) and not isinstance(st, (ast.FunctionDef, ast.AsyncFunctionDef, ast.ClassDef)):
                    setattr(st, f, split(getattr(st, f)))
            if isinstance(st, ast.Try):
                for h in st.handlers:
                    h.body = split(h.body)
            if isinstance(st, ast.Assign) and len(st.targets) == 1 and isinstance(st.targets[0], ast.Tuple) and isinstance(st.value, ast.Attribute) and _dotted_chain(st.value) and st.value.attr.isupper() and all(isinstance(x, ast.Name) for x in st.targets[0].elts) and '%s\t%s' % (current[0], _shape(st)) not in known:
                # `code, subcode = self.OPEN_WAIT_EXPIRED`: the members of a named constant, one by one
                for k_, t_ in enumerate(st.targets[0].elts):
                    a = ast.Assign(targets=[t_], value=ast.Subscript(value=copy.deepcopy(st.value), slice=ast.Constant(k_), ctx=ast.Load()), type_comment=None)
                    ast.copy_location(a, st)
                    ast.fix_missing_locations(a)
                    out.append(a)
                n += 1
                continue
            if isinstance(st, ast.Assign) and len(st.targets) == 1 and isinstance(st.targets[0], ast.Tuple) and isinstance(st.value, ast.Tuple) and len(st.targets[0].elts) == len(st.value.elts) and not any(isinstance(x, ast.Starred) for x in st.targets[0].elts + st.value.elts):
                tgs, vals = st.targets[0].elts, st.value.elts
                safe = all(ast.unparse(tgs[i]) not in reads(vals[j]) and not any(ast.unparse(tgs[i]) == r or r.startswith(ast.unparse(tgs[i]) + '.') or r.startswith(ast.unparse(tgs[i]) + '[') for r in reads(vals[j])) for i in range(len(tgs)) for j in range(i + 1, len(tgs)))
                # calls on the right-hand side keep their order either way; a target that is itself read by an earlier
                # value is fine (it is assigned after)
                # as for helpers and constant locals, only what is not on the confirmed tree is rewritten
                if safe and '%s\t%s' % (current[0], _shape(st)) not in known:
                    for t_, v_ in zip(tgs, vals):
                        a = ast.Assign(targets=[t_], value=v_, type_comment=None)
                        ast.copy_location(a, st)
                        out.append(a)
                    n += 1
                    continue
            out.append(st)
        return out

    known = load_known_tuple_assigns()
    for q, fi in model.funcs.items():
        if isinstance(fi.node, ast.Lambda):
            continue
        current[0] = q.split('#')[0]
        fi.node.body = split(fi.node.body)
    return n


def propagate_aliases(model) -> list[str]:  # noqa: ANN001
    """a local that merely names a constant, and did not exist on the confirmed tree (sa/known_aliases.txt), is replaced
    by the constant wherever it is read: hoisting `Capability.CODE.X` into a local changes nothing a rule should see"""
    known = load_known_aliases()
    done = []
    for q, fi in list(model.funcs.items()):
        if isinstance(fi.node, ast.Lambda):
            continue
        al = {nm: v for nm, v in constant_aliases(fi.node).items() if '%s\t%s' % (q.split('#')[0], nm) not in known}
        if not al:
            continue
        sub = _AliasSubst(al)
        fi.node.body = [sub.visit(st) for st in fi.node.body]
        if sub.n:
            done.append('%s: %s' % (q, ', '.join('%s = %s' % (k, ast.unparse(v)) for k, v in sorted(al.items()))))
    return done


def apply(model) -> dict:  # noqa: ANN001
    """expand unknown helpers in every function of the model; returns a report for the evidence"""
    known = load_known()
    if known is None:
        return {'enabled': False, 'reason': 'sa/known_funcs.txt missing'}
    inl = Inliner(model, known)
    n_split = split_tuple_assigns(model)
    aliases = propagate_aliases(model)
    if not inl.unknown:
        return {'enabled': True, 'unknown_functions': 0, 'inlined': [], 'constant_aliases': aliases, 'tuple_assignments_split': n_split}
    for q, fi in list(model.funcs.items()):
        try:
            inl.expand(fi)
        except RecursionError:
            inl.skipped.append('%s: recursion while inlining' % q)
    # a helper whose every call was expanded is no longer a function of the program the rules look at
    removed = []
    for q, u in list(inl.unknown.items()):
        nm = u.node.name
        still = False
        for fi in model.funcs.values():
            if fi is u or fi.module is not u.module:
                continue
            for n in ast.walk(fi.node):
                if isinstance(n, ast.Call) and ((isinstance(n.func, ast.Name) and n.func.id == nm) or (isinstance(n.func, ast.Attribute) and n.func.attr == nm)):
                    still = True
                elif isinstance(n, (ast.Name, ast.Attribute)) and not isinstance(getattr(n, 'ctx', None), ast.Store) and (getattr(n, 'id', None) == nm or getattr(n, 'attr', None) == nm) and fi is not u:
                    pass
        if not still and any(x.startswith(q + ' ->') for x in inl.inlined):
            removed.append(q)
            model.funcs.pop(q, None)
            if u.cls is not None:
                u.cls.methods.pop(nm, None)
            else:
                u.module.functions.pop(nm, None)
    return {'enabled': True, 'unknown_functions': len(inl.unknown), 'unknown': sorted(inl.unknown)[:40], 'inlined': inl.inlined[:80], 'not_inlined': inl.skipped[:40], 'removed': removed, 'constant_aliases': aliases + propagate_aliases(model), 'tuple_assignments_split': n_split + split_tuple_assigns(model)}
