"""Syntax-directed flow helpers: parents, guards, early exits, backward slices."""

from __future__ import annotations

import ast
from typing import Iterable, Iterator

from .model import FuncInfo, Model, ModuleInfo, dotted, norm, walk_no_nested, walk_with_lambdas


def parent_map(root: ast.AST) -> dict[int, ast.AST]:
    pm: dict[int, ast.AST] = {}
    for n in ast.walk(root):
        for c in ast.iter_child_nodes(n):
            pm[id(c)] = n
    return pm


def always_exits(body: list[ast.stmt], loop_exit_counts: bool = True) -> bool:
    """True when every path through `body` ends in return / raise (/ continue / break)."""
    if not body:
        return False
    last = body[-1]
    if isinstance(last, (ast.Return, ast.Raise)):
        return True
    if loop_exit_counts and isinstance(last, (ast.Continue, ast.Break)):
        return True
    if isinstance(last, ast.If):
        return bool(last.orelse) and always_exits(last.body, loop_exit_counts) and always_exits(last.orelse, loop_exit_counts)
    if isinstance(last, ast.Try):
        ok = always_exits(last.body, loop_exit_counts) or (bool(last.orelse) and always_exits(last.orelse, loop_exit_counts))
        return ok and all(always_exits(h.body, loop_exit_counts) for h in last.handlers) or (
            bool(last.finalbody) and always_exits(last.finalbody, loop_exit_counts)
        )
    if isinstance(last, (ast.With, ast.AsyncWith)):
        return always_exits(last.body, loop_exit_counts)
    # any earlier unconditional exit
    for st in body[:-1]:
        if isinstance(st, (ast.Return, ast.Raise)):
            return True
    return False


def block_of(pm: dict[int, ast.AST], st: ast.AST) -> tuple[ast.AST, str, list[ast.stmt]] | None:
    """(owner, field, list) of the statement list that directly contains `st`."""
    p = pm.get(id(st))
    if p is None:
        return None
    for f in ('body', 'orelse', 'finalbody'):
        lst = getattr(p, f, None)
        if isinstance(lst, list) and any(x is st for x in lst):
            return p, f, lst
    return None


def enclosing_stmt(pm: dict[int, ast.AST], node: ast.AST) -> ast.stmt | None:
    cur: ast.AST | None = node
    while cur is not None and not isinstance(cur, ast.stmt):
        cur = pm.get(id(cur))
    return cur  # type: ignore[return-value]


def guards(fn: ast.AST, node: ast.AST, pm: dict[int, ast.AST] | None = None) -> list[tuple[ast.expr, bool]]:
    """Conditions (test, polarity) that hold when `node` executes, syntactically derived:
    enclosing if/while/IfExp/BoolOp arms, and negations of earlier sibling `if` statements whose
    body always exits (early-return idiom), up to the function."""
    pm = pm or parent_map(fn)
    out: list[tuple[ast.expr, bool]] = []
    cur: ast.AST = node
    while True:
        p = pm.get(id(cur))
        if p is None or cur is fn:
            break
        if isinstance(p, ast.If) or isinstance(p, ast.While):
            if any(x is cur for x in p.body):
                out.append((p.test, True))
            elif any(x is cur for x in p.orelse):
                if isinstance(p, ast.If):
                    out.append((p.test, False))
        elif isinstance(p, ast.IfExp):
            if cur is p.body:
                out.append((p.test, True))
            elif cur is p.orelse:
                out.append((p.test, False))
        elif isinstance(p, ast.BoolOp):
            idx = next((i for i, v in enumerate(p.values) if v is cur), 0)
            for v in p.values[:idx]:
                out.append((v, isinstance(p.op, ast.And)))
        # earlier siblings that exit
        if isinstance(cur, ast.stmt):
            b = block_of(pm, cur)
            if b is not None:
                lst = b[2]
                for st in lst:
                    if st is cur:
                        break
                    if isinstance(st, ast.If):
                        if always_exits(st.body) and not st.orelse:
                            out.append((st.test, False))
                        elif st.orelse and always_exits(st.orelse) and not always_exits(st.body):
                            out.append((st.test, True))
        cur = p
        if isinstance(cur, (ast.FunctionDef, ast.AsyncFunctionDef, ast.Lambda)) and cur is not node:
            if cur is fn:
                break
            break
    return out


def conjuncts(test: ast.expr, polarity: bool = True) -> list[tuple[ast.expr, bool]]:
    """Flatten `a and b` (when true) / `a or b` (when false) / `not x`."""
    if isinstance(test, ast.UnaryOp) and isinstance(test.op, ast.Not):
        return conjuncts(test.operand, not polarity)
    if isinstance(test, ast.BoolOp):
        if isinstance(test.op, ast.And) and polarity:
            out = []
            for v in test.values:
                out.extend(conjuncts(v, True))
            return out
        if isinstance(test.op, ast.Or) and not polarity:
            out = []
            for v in test.values:
                out.extend(conjuncts(v, False))
            return out
    return [(test, polarity)]


def flat_guards(fn: ast.AST, node: ast.AST, pm: dict[int, ast.AST] | None = None) -> list[tuple[ast.expr, bool]]:
    out = []
    for t, pol in guards(fn, node, pm):
        out.extend(conjuncts(t, pol))
    return out


def names_in(expr: ast.AST) -> set[str]:
    return {n.id for n in ast.walk(expr) if isinstance(n, ast.Name)}


def dotted_reads(expr: ast.AST) -> set[str]:
    """All maximal Name/Attribute chains read in expr ('self.x.y', 'negotiated.asn4')."""
    out: set[str] = set()

    def visit(n: ast.AST) -> None:
        if isinstance(n, (ast.Attribute, ast.Name)):
            d = dotted(n)
            if d is not None:
                out.add(d)
                return
        for c in ast.iter_child_nodes(n):
            visit(c)

    visit(expr)
    return out


def assigned_targets(st: ast.AST) -> list[ast.expr]:
    if isinstance(st, ast.Assign):
        out = []
        for t in st.targets:
            out.extend(_flatten_target(t))
        return out
    if isinstance(st, (ast.AugAssign, ast.AnnAssign)):
        return _flatten_target(st.target)
    if isinstance(st, (ast.For, ast.AsyncFor)):
        return _flatten_target(st.target)
    if isinstance(st, (ast.With, ast.AsyncWith)):
        out = []
        for it in st.items:
            if it.optional_vars is not None:
                out.extend(_flatten_target(it.optional_vars))
        return out
    if isinstance(st, ast.NamedExpr):
        return [st.target]
    return []


def _flatten_target(t: ast.expr) -> list[ast.expr]:
    if isinstance(t, (ast.Tuple, ast.List)):
        out = []
        for e in t.elts:
            out.extend(_flatten_target(e))
        return out
    if isinstance(t, ast.Starred):
        return _flatten_target(t.value)
    return [t]


class Slicer:
    """Flow-insensitive backward data slice inside one function.

    atoms(expr) -> set of strings:
        call:<resolved fullname>      attr:<dotted read>      param:<name>      const:<repr>
    Local names are expanded through all their assignments in the function (including
    loop targets and augmented assignments); attribute chains rooted at a local alias are
    expanded too (alias.x -> <value of alias>.x is not attempted; the alias's atoms are added).
    """

    def __init__(self, model: Model, fi: FuncInfo, control: bool = False) -> None:
        self.model = model
        self.fi = fi
        self.mod = fi.module
        self.control = control
        self.params = {a.arg for a in _all_args(fi.node)}
        self.defs: dict[str, list[tuple[ast.AST, ast.AST]]] = {}  # name -> [(value expr, stmt)]
        self.pm = parent_map(fi.node)
        for st in walk_no_nested(fi.node):
            if isinstance(st, ast.Assign):
                for t in st.targets:
                    self._bind(t, st.value, st)
            elif isinstance(st, ast.AnnAssign) and st.value is not None:
                self._bind(st.target, st.value, st)
            elif isinstance(st, ast.AugAssign):
                self._bind(st.target, st.value, st)
            elif isinstance(st, (ast.For, ast.AsyncFor)):
                self._bind(st.target, st.iter, st)
            elif isinstance(st, (ast.With, ast.AsyncWith)):
                for it in st.items:
                    if it.optional_vars is not None:
                        self._bind(it.optional_vars, it.context_expr, st)
            elif isinstance(st, ast.NamedExpr):
                self._bind(st.target, st.value, st)
            elif isinstance(st, ast.comprehension):
                self._bind(st.target, st.iter, st)
        self._memo: dict[str, set[str]] = {}
        self._busy: set[str] = set()

    def _bind(self, target: ast.AST, value: ast.AST, st: ast.AST) -> None:
        if isinstance(target, ast.Name):
            self.defs.setdefault(target.id, []).append((value, st))
        elif isinstance(target, (ast.Tuple, ast.List)):
            if isinstance(value, (ast.Tuple, ast.List)) and len(value.elts) == len(target.elts):
                for t, v in zip(target.elts, value.elts):
                    self._bind(t, v, st)
            else:
                for t in target.elts:
                    self._bind(t, value, st)
        elif isinstance(target, ast.Starred):
            self._bind(target.value, value, st)
        elif isinstance(target, ast.Subscript):
            # d[k] = v : d depends on v
            base = target.value
            if isinstance(base, ast.Name):
                self.defs.setdefault(base.id, []).append((value, st))
                self.defs.setdefault(base.id, []).append((target.slice, st))

    def atoms(self, expr: ast.AST) -> set[str]:
        out: set[str] = set()
        self._expr(expr, out)
        return out

    def _expr(self, e: ast.AST, out: set[str]) -> None:
        for n in walk_with_lambdas(e):
            if isinstance(n, ast.Call):
                for c in self.model.callees(self.mod, n):
                    out.add('call:' + c)
            elif isinstance(n, ast.Constant):
                if isinstance(n.value, (int, str, bytes, bool)) or n.value is None:
                    out.add('const:' + repr(n.value))
            elif isinstance(n, ast.Attribute):
                d = dotted(n)
                if d is not None:
                    out.add('attr:' + d)
                    t = self.model.type_of(self.mod, n.value)
                    if t != '?':
                        out.add('field:' + t.split('[')[0] + '.' + n.attr)
            elif isinstance(n, ast.Name):
                self._name(n.id, out)

    def _name(self, name: str, out: set[str]) -> None:
        if name in self._memo:
            out |= self._memo[name]
            return
        if name in self._busy:
            return
        self._busy.add(name)
        acc: set[str] = set()
        if name in self.params:
            acc.add('param:' + name)
        if name in self.defs:
            for value, st in self.defs[name]:
                self._expr(value, acc)
                if self.control:
                    for t, _pol in guards(self.fi.node, st, self.pm):
                        self._expr(t, acc)
        elif name not in self.params:
            acc.add('global:' + name)
        self._busy.discard(name)
        if not self._busy:
            self._memo[name] = acc
        out |= acc

    def control_atoms(self, node: ast.AST) -> set[str]:
        out: set[str] = set()
        for t, _pol in guards(self.fi.node, node, self.pm):
            self._expr(t, out)
        return out


def _all_args(fn: ast.FunctionDef | ast.AsyncFunctionDef | ast.Lambda) -> Iterator[ast.arg]:
    a = fn.args
    yield from a.posonlyargs
    yield from a.args
    if a.vararg:
        yield a.vararg
    yield from a.kwonlyargs
    if a.kwarg:
        yield a.kwarg


def stmts_in_order(fn: ast.AST) -> list[ast.stmt]:
    out = [n for n in walk_no_nested(fn) if isinstance(n, ast.stmt) and n is not fn]
    out.sort(key=lambda s: (s.lineno, s.col_offset))
    return out


def returns_of(fn: ast.AST) -> list[ast.Return]:
    return sorted((n for n in walk_no_nested(fn) if isinstance(n, ast.Return)), key=lambda s: s.lineno)


def raises_of(fn: ast.AST) -> list[ast.Raise]:
    return sorted((n for n in walk_no_nested(fn) if isinstance(n, ast.Raise)), key=lambda s: s.lineno)


def has_atom(atoms: Iterable[str], *needles: str) -> bool:
    for a in atoms:
        for nd in needles:
            if a == nd or a.endswith(nd):
                return True
    return False
