"""Constant folding over the model.  Never calls repository code."""

from __future__ import annotations

import ast
import operator
from typing import Any

from .model import ClassInfo, Model, ModuleInfo, dotted


class _Unknown:
    def __repr__(self) -> str:
        return 'UNKNOWN'

    def __bool__(self) -> bool:
        return False


UNKNOWN = _Unknown()

_BIN = {
    ast.Add: operator.add,
    ast.Sub: operator.sub,
    ast.Mult: operator.mul,
    ast.FloorDiv: operator.floordiv,
    ast.Div: operator.truediv,
    ast.Mod: operator.mod,
    ast.LShift: operator.lshift,
    ast.RShift: operator.rshift,
    ast.BitOr: operator.or_,
    ast.BitAnd: operator.and_,
    ast.BitXor: operator.xor,
    ast.Pow: operator.pow,
}


class Folder:
    def __init__(self, model: Model) -> None:
        self.model = model
        self._busy: set[tuple[str, str]] = set()

    def fold(self, expr: ast.AST, mod: ModuleInfo, cls: ClassInfo | None = None, env: dict[str, Any] | None = None) -> Any:
        try:
            return self._fold(expr, mod, cls, env or {})
        except RecursionError:
            return UNKNOWN
        except Exception:
            return UNKNOWN

    # ------------------------------------------------------------------
    def _fold(self, e: ast.AST, mod: ModuleInfo, cls: ClassInfo | None, env: dict[str, Any]) -> Any:
        if isinstance(e, ast.Constant):
            return e.value
        if isinstance(e, ast.Name):
            if e.id in env:
                return env[e.id]
            if e.id in ('True', 'False', 'None'):
                return {'True': True, 'False': False, 'None': None}[e.id]
            if cls is not None:
                r = self.model.effective_assign(cls.qualname, e.id)
                if r is not None:
                    return self._fold_named(r[1], r[0].module, r[0], (r[0].qualname, e.id))
                for c in cls.mro or [cls.qualname]:
                    if c + '.' + e.id in self.model.classes:
                        return ClassRef(c + '.' + e.id)
                # enclosing class scope is not visible in Python, but module level is
            if e.id in mod.classes:
                return ClassRef(mod.classes[e.id].qualname)
            if e.id in mod.assigns:
                return self._fold_named(mod.assigns[e.id], mod, None, (mod.name, e.id))
            if e.id in mod.imports:
                return self.resolve_fullname(mod.imports[e.id])
            return UNKNOWN
        if isinstance(e, ast.Attribute):
            d = dotted(e)
            if d is not None:
                v = self.resolve_dotted(d, mod, cls, env)
                if v is not UNKNOWN:
                    return v
            base = self._fold(e.value, mod, cls, env)
            if isinstance(base, ClassRef):
                return self.class_attr(base.qualname, e.attr)
            return UNKNOWN
        if isinstance(e, ast.UnaryOp):
            v = self._fold(e.operand, mod, cls, env)
            if v is UNKNOWN:
                return UNKNOWN
            if isinstance(e.op, ast.USub):
                return -v
            if isinstance(e.op, ast.Not):
                return not v
            if isinstance(e.op, ast.Invert):
                return ~v
            if isinstance(e.op, ast.UAdd):
                return +v
        if isinstance(e, ast.BinOp):
            l = self._fold(e.left, mod, cls, env)
            r = self._fold(e.right, mod, cls, env)
            if l is UNKNOWN or r is UNKNOWN or isinstance(l, ClassRef) or isinstance(r, ClassRef):
                return UNKNOWN
            f = _BIN.get(type(e.op))
            if f is None:
                return UNKNOWN
            if isinstance(r, int) and isinstance(e.op, (ast.Mult, ast.LShift, ast.Pow)) and abs(r) > 10000:
                return UNKNOWN
            return f(l, r)
        if isinstance(e, ast.Tuple):
            vs = [self._fold(x, mod, cls, env) for x in e.elts]
            return UNKNOWN if any(v is UNKNOWN for v in vs) else tuple(vs)
        if isinstance(e, ast.List):
            vs = []
            for x in e.elts:
                if isinstance(x, ast.Starred):
                    inner = self._fold(x.value, mod, cls, env)
                    if not isinstance(inner, (list, tuple)):
                        return UNKNOWN
                    vs.extend(inner)
                else:
                    vs.append(self._fold(x, mod, cls, env))
            return UNKNOWN if any(v is UNKNOWN for v in vs) else list(vs)
        if isinstance(e, ast.Call):
            fn = e.func
            if isinstance(fn, ast.Name) and fn.id == 'bytes' and len(e.args) == 1 and not e.keywords:
                v = self._fold(e.args[0], mod, cls, env)
                if isinstance(v, (list, tuple)) and all(isinstance(x, int) and not isinstance(x, bool) for x in v):
                    try:
                        return bytes(v)
                    except ValueError:
                        return UNKNOWN
                if isinstance(v, bytes):
                    return v
                if isinstance(v, int) and not isinstance(v, bool) and 0 <= v <= 70000:
                    return bytes(v)
                return UNKNOWN
            if isinstance(fn, ast.Attribute) and fn.attr == 'join' and len(e.args) == 1 and not e.keywords:
                sep = self._fold(fn.value, mod, cls, env)
                items = self._fold(e.args[0], mod, cls, env)
                if isinstance(sep, str) and isinstance(items, (list, tuple)) and all(isinstance(i, str) for i in items):
                    return sep.join(items)
                if isinstance(sep, bytes) and isinstance(items, (list, tuple)) and all(isinstance(i, bytes) for i in items):
                    return sep.join(items)
                return UNKNOWN
            if isinstance(fn, ast.Attribute) and fn.attr in ('lower', 'upper', 'strip', 'lstrip', 'rstrip') and not e.args and not e.keywords:
                base_s = self._fold(fn.value, mod, cls, env)
                return getattr(str(base_s), fn.attr)() if isinstance(base_s, str) else UNKNOWN
            if isinstance(fn, ast.Name) and fn.id in ('enumerate', 'zip', 'list', 'tuple', 'sorted', 'reversed') and e.args:
                seqs = [self._fold(a, mod, cls, env) for a in e.args]
                kw = {k.arg: self._fold(k.value, mod, cls, env) for k in e.keywords}
                if all(isinstance(x, (list, tuple, str, bytes)) for x in seqs[:1]) and not any(v is UNKNOWN for v in kw.values()):
                    try:
                        if fn.id == 'enumerate' and len(seqs) <= 2 and (len(seqs) == 1 or isinstance(seqs[1], int)):
                            return [tuple(p_) for p_ in enumerate(seqs[0], seqs[1] if len(seqs) == 2 else kw.get('start', 0))]
                        if fn.id == 'zip' and all(isinstance(x, (list, tuple, str, bytes)) for x in seqs) and not kw:
                            return [tuple(p_) for p_ in zip(*seqs)]
                        if fn.id in ('list', 'tuple') and len(seqs) == 1 and not kw and not isinstance(seqs[0], (str, bytes)):
                            return list(seqs[0]) if fn.id == 'list' else tuple(seqs[0])
                        if fn.id == 'sorted' and len(seqs) == 1 and not kw:
                            return sorted(seqs[0])
                        if fn.id == 'reversed' and len(seqs) == 1 and not kw:
                            return list(reversed(seqs[0]))
                    except TypeError:
                        return UNKNOWN
            if isinstance(fn, ast.Name) and fn.id == 'vars' and len(e.args) == 1 and not e.keywords:
                obj = self._fold(e.args[0], mod, cls, env)
                return obj if isinstance(obj, dict) else UNKNOWN
            if isinstance(fn, ast.Attribute) and fn.attr == 'get' and 1 <= len(e.args) <= 2 and not e.keywords:
                obj = self._fold(fn.value, mod, cls, env)
                if isinstance(obj, dict):
                    k = self._fold(e.args[0], mod, cls, env)
                    dflt = self._fold(e.args[1], mod, cls, env) if len(e.args) == 2 else None
                    if k is UNKNOWN or dflt is UNKNOWN:
                        return UNKNOWN
                    try:
                        return obj.get(k, dflt)
                    except TypeError:
                        return UNKNOWN
            if isinstance(fn, ast.Name) and fn.id in ('any', 'all') and len(e.args) == 1 and not e.keywords:
                items = self._fold(e.args[0], mod, cls, env)
                if isinstance(items, (list, tuple)) and not any(isinstance(i, ClassRef) for i in items):
                    return any(items) if fn.id == 'any' else all(items)
                return UNKNOWN
            if isinstance(fn, ast.Name) and fn.id == 'str' and len(e.args) == 1 and not e.keywords:
                v = self._fold(e.args[0], mod, cls, env)
                return str(v) if isinstance(v, (str, int)) and not isinstance(v, bool) else UNKNOWN
            if isinstance(fn, ast.Name) and fn.id == 'slice' and 1 <= len(e.args) <= 3 and not e.keywords:
                vs = [self._fold(a, mod, cls, env) for a in e.args]
                if all(v is None or (isinstance(v, int) and not isinstance(v, bool)) for v in vs):
                    return slice(*vs)
                return UNKNOWN
            if isinstance(fn, ast.Name) and fn.id == 'range' and 1 <= len(e.args) <= 3 and not e.keywords:
                vs = [self._fold(a, mod, cls, env) for a in e.args]
                if all(isinstance(v, int) and not isinstance(v, bool) for v in vs) and (len(vs) < 3 or vs[2] != 0):
                    r = range(*vs)
                    return list(r) if len(r) <= 5000 else UNKNOWN
                return UNKNOWN
            if isinstance(fn, ast.Name) and fn.id == 'memoryview' and len(e.args) == 1 and not e.keywords:
                v = self._fold(e.args[0], mod, cls, env)
                return v if isinstance(v, bytes) else UNKNOWN
            if (dotted(fn) or '') == 'int.from_bytes' and 1 <= len(e.args) <= 2:
                vs = [self._fold(a, mod, cls, env) for a in e.args]
                kw = {k.arg: self._fold(k.value, mod, cls, env) for k in e.keywords}
                order = vs[1] if len(vs) == 2 else kw.pop('byteorder', 'big')
                signed = kw.pop('signed', False)
                if isinstance(vs[0], bytes) and order in ('big', 'little') and isinstance(signed, bool) and not kw:
                    return int.from_bytes(vs[0], order, signed=signed)
                return UNKNOWN
            if (dotted(fn) or '') in ('unpack', 'struct.unpack') and len(e.args) == 2 and not e.keywords:
                vs = [self._fold(a, mod, cls, env) for a in e.args]
                if isinstance(vs[0], str) and isinstance(vs[1], bytes):
                    import struct

                    try:
                        return struct.unpack(vs[0], vs[1])
                    except Exception:
                        return UNKNOWN
                return UNKNOWN
            if isinstance(fn, ast.Name) and fn.id in ('int', 'len', 'ord', 'chr', 'bool', 'min', 'max', 'pow', 'abs') and not e.keywords:
                vs = [self._fold(a, mod, cls, env) for a in e.args]
                if any(v is UNKNOWN or isinstance(v, ClassRef) for v in vs):
                    return UNKNOWN
                if fn.id == 'pow' and (len(vs) != 2 or not all(isinstance(v, int) for v in vs) or vs[1] > 4096):
                    return UNKNOWN
                return {'int': int, 'len': len, 'ord': ord, 'chr': chr, 'bool': bool, 'min': min, 'max': max, 'pow': pow, 'abs': abs}[fn.id](*vs)
            if (dotted(fn) or '').rsplit('.', 1)[-1] == 'pack' and (dotted(fn) or '') in ('pack', 'struct.pack') and e.args and not e.keywords:
                vs = [self._fold(a, mod, cls, env) for a in e.args]
                if any(v is UNKNOWN or isinstance(v, ClassRef) for v in vs) or not isinstance(vs[0], str):
                    return UNKNOWN
                import struct

                try:
                    return struct.pack(vs[0], *vs[1:])
                except Exception:
                    return UNKNOWN
            # IntSubclass(5) -> 5 ; Cls(const) for int-like wrappers
            if len(e.args) == 1 and not e.keywords:
                target = self._fold(fn, mod, cls, env) if isinstance(fn, (ast.Name, ast.Attribute)) else UNKNOWN
                if isinstance(target, ClassRef) and self.is_int_class(target.qualname):
                    v = self._fold(e.args[0], mod, cls, env)
                    if isinstance(v, int):
                        return v
            return UNKNOWN
        if isinstance(e, ast.JoinedStr):
            parts = []
            for v in e.values:
                if isinstance(v, ast.Constant) and isinstance(v.value, str):
                    parts.append(v.value)
                elif isinstance(v, ast.FormattedValue) and v.format_spec is None and v.conversion in (-1, 115):
                    x = self._fold(v.value, mod, cls, env)
                    if x is UNKNOWN or isinstance(x, (ClassRef, dict, list, tuple)):
                        return UNKNOWN
                    parts.append(str(x))
                else:
                    return UNKNOWN
            return ''.join(parts)
        if isinstance(e, (ast.ListComp, ast.GeneratorExp)) and len(e.generators) == 1 and isinstance(e.generators[0].target, ast.Name) and not e.generators[0].is_async:
            g = e.generators[0]
            it = self._fold(g.iter, mod, cls, env)
            if not isinstance(it, (list, tuple, bytes, range)) or len(it) > 5000:
                return UNKNOWN
            out_l = []
            for x in it:
                env2 = dict(env)
                env2[g.target.id] = x
                keep = True
                for c in g.ifs:
                    t = self._fold(c, mod, cls, env2)
                    if t is UNKNOWN:
                        return UNKNOWN
                    keep = keep and bool(t)
                if keep:
                    v = self._fold(e.elt, mod, cls, env2)
                    if v is UNKNOWN:
                        return UNKNOWN
                    out_l.append(v)
            return out_l
        if isinstance(e, ast.Dict):
            out_d = {}
            for k, v in zip(e.keys, e.values):
                if k is None:
                    return UNKNOWN
                kk, vv = self._fold(k, mod, cls, env), self._fold(v, mod, cls, env)
                if kk is UNKNOWN or vv is UNKNOWN or isinstance(kk, (list, dict, ClassRef)):
                    return UNKNOWN
                out_d[kk] = vv
            return out_d
        if isinstance(e, ast.Subscript):
            base = self._fold(e.value, mod, cls, env)
            if isinstance(base, dict) and not isinstance(e.slice, ast.Slice):
                k = self._fold(e.slice, mod, cls, env)
                try:
                    return base[k] if k is not UNKNOWN and k in base else UNKNOWN
                except TypeError:
                    return UNKNOWN
            if not isinstance(base, (bytes, tuple, list, str)):
                return UNKNOWN
            if isinstance(e.slice, ast.Slice):
                parts = []
                for x in (e.slice.lower, e.slice.upper, e.slice.step):
                    v = None if x is None else self._fold(x, mod, cls, env)
                    if v is not None and (v is UNKNOWN or isinstance(v, bool) or not isinstance(v, int)):
                        return UNKNOWN
                    parts.append(v)
                return base[slice(*parts)]
            i = self._fold(e.slice, mod, cls, env)
            if isinstance(i, int) and not isinstance(i, bool) and -len(base) <= i < len(base):
                return base[i]
            if isinstance(i, slice):
                return base[i]
            return UNKNOWN
        if isinstance(e, ast.Compare) and len(e.ops) == 1:
            l = self._fold(e.left, mod, cls, env)
            r = self._fold(e.comparators[0], mod, cls, env)
            if l is UNKNOWN or r is UNKNOWN:
                return UNKNOWN
            op = e.ops[0]
            try:
                if isinstance(op, ast.Eq):
                    return l == r
                if isinstance(op, ast.NotEq):
                    return l != r
                if isinstance(op, ast.Lt):
                    return l < r
                if isinstance(op, ast.LtE):
                    return l <= r
                if isinstance(op, ast.Gt):
                    return l > r
                if isinstance(op, ast.GtE):
                    return l >= r
                if isinstance(op, (ast.Is, ast.IsNot)) and (l is None or r is None or isinstance(l, bool) or isinstance(r, bool)):
                    return (l is r) if isinstance(op, ast.Is) else (l is not r)
                if isinstance(op, (ast.Is, ast.IsNot)) and isinstance(l, str) and isinstance(r, str) and (hasattr(l, 'value') or hasattr(r, 'value')):
                    return (l == r) if isinstance(op, ast.Is) else (l != r)
                if isinstance(op, (ast.In, ast.NotIn)) and isinstance(r, str) and isinstance(l, str):
                    return (l in r) if isinstance(op, ast.In) else (l not in r)
                if isinstance(op, ast.In) and isinstance(r, (tuple, list, set, frozenset, dict)):
                    return l in r
                if isinstance(op, ast.NotIn) and isinstance(r, (tuple, list, set, frozenset, dict)):
                    return l not in r
            except TypeError:
                return UNKNOWN
        if isinstance(e, ast.IfExp):
            t = self._fold(e.test, mod, cls, env)
            if t is UNKNOWN:
                return UNKNOWN
            return self._fold(e.body if t else e.orelse, mod, cls, env)
        if isinstance(e, ast.BoolOp):
            last: Any = UNKNOWN
            for v in e.values:
                last = self._fold(v, mod, cls, env)
                if last is UNKNOWN or isinstance(last, ClassRef):
                    return UNKNOWN
                if isinstance(e.op, ast.And) and not last:
                    return last
                if isinstance(e.op, ast.Or) and last:
                    return last
            return last
        return UNKNOWN

    def _fold_named(self, expr: ast.AST, mod: ModuleInfo, cls: ClassInfo | None, key: tuple[str, str]) -> Any:
        if key in self._busy:
            return UNKNOWN
        self._busy.add(key)
        try:
            return self._fold(expr, mod, cls, {})
        finally:
            self._busy.discard(key)

    # ------------------------------------------------------------------
    def is_int_class(self, qn: str) -> bool:
        ci = self.model.classes.get(qn)
        if ci is None:
            return False
        return any(b in ('builtins.int', 'enum.IntEnum', 'enum.IntFlag') for b in ci.mro)

    def class_attr(self, cls_qn: str, name: str) -> Any:
        r = self.model.effective_assign(cls_qn, name)
        if r is None:
            # nested class?
            if cls_qn + '.' + name in self.model.classes:
                return ClassRef(cls_qn + '.' + name)
            # a singleton bound after the class body, at module level:  AFI.ipv4 = AFI.from_int(AFI.IPv4)  (an int subclass)
            ci = self.model.classes.get(cls_qn)
            if ci is not None and self.is_int_class(cls_qn):
                found = [st.value for st in ci.module.tree.body if isinstance(st, ast.Assign) and len(st.targets) == 1 and isinstance(st.targets[0], ast.Attribute) and st.targets[0].attr == name and isinstance(st.targets[0].value, ast.Name) and st.targets[0].value.id == ci.name]
                if len(found) == 1 and isinstance(found[0], ast.Call) and len(found[0].args) == 1 and not found[0].keywords and dotted(found[0].func) in (ci.name, ci.name + '.from_int'):
                    v = self._fold_named(found[0].args[0], ci.module, ci, (cls_qn, name + '@module'))
                    if isinstance(v, int):
                        return v
            return UNKNOWN
        return self._fold_named(r[1], r[0].module, r[0], (r[0].qualname, name))

    def resolve_fullname(self, fullname: str) -> Any:
        if fullname in self.model.classes:
            return ClassRef(fullname)
        modname, _, attr = fullname.rpartition('.')
        m = self.model.by_name.get(modname)
        if m is not None:
            if attr in m.assigns:
                return self._fold_named(m.assigns[attr], m, None, (m.name, attr))
            if attr in m.imports:
                return self.resolve_fullname(m.imports[attr])
            if attr in m.classes:
                return ClassRef(m.classes[attr].qualname)
        if modname in self.model.classes:
            return self.class_attr(modname, attr)
        return UNKNOWN

    def resolve_dotted(self, d: str, mod: ModuleInfo, cls: ClassInfo | None, env: dict[str, Any]) -> Any:
        parts = d.split('.')
        head = parts[0]
        cur: Any
        if head in env:
            cur = env[head]
        elif head in ('self', 'cls') and cls is not None:
            cur = ClassRef(cls.qualname)
        elif cls is not None and self.model.effective_assign(cls.qualname, head) is not None and len(parts) == 1:
            return self.class_attr(cls.qualname, head)
        elif cls is not None and any(c + '.' + head in self.model.classes for c in (cls.mro or [cls.qualname])):
            cur = ClassRef(next(c + '.' + head for c in (cls.mro or [cls.qualname]) if c + '.' + head in self.model.classes))
        elif head in mod.classes:
            cur = ClassRef(mod.classes[head].qualname)
        elif head in mod.imports:
            cur = self.resolve_fullname(mod.imports[head])
            if cur is UNKNOWN:
                # imported module
                fn = mod.imports[head]
                if fn in self.model.by_name:
                    cur = ModRef(fn)
        elif head in mod.assigns:
            cur = self._fold_named(mod.assigns[head], mod, None, (mod.name, head))
        else:
            return UNKNOWN
        for p in parts[1:]:
            if isinstance(cur, dict) and p in cur:
                # an object described by its attributes (case evaluation: {'safi': 128})
                cur = cur[p]
                continue
            if isinstance(cur, str) and p in ('value', 'name') and hasattr(cur, p):
                # a member of a str enumeration handed to an evaluation (sa.evalfn.EnumMember)
                cur = getattr(cur, p)
                continue
            if isinstance(cur, (str, int)) and not isinstance(cur, bool) and p == 'value':
                # a member of an enumeration folds to its value (class_attr): `.value` of it is that value
                continue
            if isinstance(cur, ClassRef):
                cur = self.class_attr(cur.qualname, p)
            elif isinstance(cur, ModRef):
                cur = self.resolve_fullname(cur.name + '.' + p)
                if cur is UNKNOWN and (cur_name := None) is None:
                    pass
            else:
                return UNKNOWN
            if cur is UNKNOWN:
                return UNKNOWN
        return cur


class ClassRef:
    def __init__(self, qualname: str) -> None:
        self.qualname = qualname

    def __repr__(self) -> str:
        return 'ClassRef(%s)' % self.qualname

    def __eq__(self, other: object) -> bool:
        return isinstance(other, ClassRef) and other.qualname == self.qualname

    def __hash__(self) -> int:
        return hash(self.qualname)


class ModRef:
    def __init__(self, name: str) -> None:
        self.name = name
