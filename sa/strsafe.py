"""Safe-string inference for text fragments assembled by string formatting.

An interpolated expression is SAFE when nothing a peer chose can reach it unescaped:
  * its inferred type is int-like / bool / float, or a closed-alphabet type (IP, ASN, AFI ...), or str() of one;
  * it is the result of a sanitiser (json.dumps, JSON._string, hexstring, oneline, ...) or of a `json()` method
    (each json() method is checked on its own);
  * it is a literal, or a concatenation / join / conditional / f-string of SAFE parts;
  * it is a local name all of whose definitions are SAFE;
  * it is a str-typed attribute that is not a tainted member (tainted members: fields and methods that carry the
    result of decoding wire bytes to text, collected by `taint_sources`).
Everything else is TAINTED, with the reason.
"""

from __future__ import annotations

import ast
import re
from typing import Iterable

from .flow import Slicer
from .model import FuncInfo, Model, dotted, norm, walk_no_nested, walk_with_lambdas

INT_TYPES = ('builtins.int', 'builtins.bool', 'builtins.float')


class Taint:
    def __init__(self, model: Model) -> None:
        self.model = model
        self.members: dict[tuple[str, str], str] = {}  # (class, member) -> where it was tainted
        self.member_names: dict[str, set[str]] = {}
        self._collect()

    def add(self, cls: str, member: str, why: str) -> None:
        if (cls, member) not in self.members:
            self.members[(cls, member)] = why
            self.member_names.setdefault(member, set()).add(cls)

    def is_source_call(self, fi: FuncInfo, c: ast.Call) -> bool:
        if isinstance(c.func, ast.Attribute) and c.func.attr == 'decode':
            t = self.model.type_of(fi.module, c.func.value)
            return any(k in t for k in ('bytes', 'memoryview', 'bytearray', 'Buffer')) or t in ('?', 'Any')
        if isinstance(c.func, ast.Name) and c.func.id in ('decode_utf8', '_decode_utf8'):
            return True
        if isinstance(c.func, ast.Name) and c.func.id == 'str' and len(c.args) >= 2:
            return True
        return False

    def _collect(self) -> None:
        m = self.model
        pending: list[tuple[FuncInfo, ast.Call]] = []
        for fi in m.funcs.values():
            if not (fi.module.rel.startswith('exabgp/bgp/') or fi.module.rel.startswith('exabgp/protocol/')):
                continue
            for c in walk_no_nested(fi.node):
                if isinstance(c, ast.Call) and self.is_source_call(fi, c):
                    pending.append((fi, c))
        for fi, c in pending:
            self._propagate(fi, c, '%s: %s' % (fi.loc(c), norm(c)[:50]))

    def _propagate(self, fi: FuncInfo, src: ast.AST, why: str, depth: int = 0) -> None:
        """Where does the value of `src` (an expression inside fi) go?"""
        if depth > 3:
            return
        from .flow import parent_map

        pm = parent_map(fi.node)
        tainted_names: set[str] = set()
        # walk up through wrapping expressions (.replace(...), conditional, f-string) to the statement
        cur: ast.AST = src
        while True:
            p = pm.get(id(cur))
            if p is None or isinstance(p, ast.stmt):
                break
            if isinstance(p, ast.Call) and p.func is not cur and not (isinstance(p.func, ast.Attribute) and p.func.value is cur):
                # passed as an argument
                self._arg(fi, p, cur, why, depth)
                if self._is_sanitiser(fi, p):
                    return
            cur = p
        st = pm.get(id(cur)) if not isinstance(cur, ast.stmt) else cur
        if isinstance(st, (ast.Assign, ast.AnnAssign)):
            tgts = st.targets if isinstance(st, ast.Assign) else [st.target]
            for t in tgts:
                if isinstance(t, ast.Name):
                    tainted_names.add(t.id)
                elif isinstance(t, ast.Attribute):
                    for cname in self.model.type_classes(fi.module, t.value) or ([fi.cls.qualname] if fi.cls and dotted(t.value) in ('self', 'instance') else []):
                        self.add(cname, t.attr, why)
        elif isinstance(st, ast.Return) and fi.cls is not None:
            self.add(fi.cls.qualname, fi.name, why)
        # follow local names one step
        for nm in tainted_names:
            for n in walk_no_nested(fi.node):
                if isinstance(n, ast.Name) and n.id == nm and isinstance(n.ctx, ast.Load) and n.lineno >= getattr(st, 'lineno', 0):
                    self._propagate(fi, n, why, depth + 1)

    def _is_sanitiser(self, fi: FuncInfo, call: ast.Call) -> bool:
        d = dotted(call.func) or ''
        return d in ('json.dumps', 'hexstring', 'oneline') or d.endswith('._string')

    def _arg(self, fi: FuncInfo, call: ast.Call, arg: ast.AST, why: str, depth: int) -> None:
        """A tainted value is passed to a constructor: taint the fields its __init__ stores the parameter in."""
        idx = next((i for i, a in enumerate(call.args) if a is arg), None)
        kw = next((k.arg for k in call.keywords if k.value is arg or k is arg), None)
        for cal in self.model.callees(fi.module, call):
            ci = self.model.classes.get(cal)
            target = None
            if ci is not None:
                target = self.model.effective(cal, '__init__')
                off = 1
            else:
                f = self.model.funcs.get(cal)
                if f is not None and f.cls is not None and f.name.startswith('make'):
                    target = f
                    off = 1
            if target is None:
                continue
            params = [a.arg for a in target.node.args.args]
            pname = kw if kw else (params[idx + off] if idx is not None and idx + off < len(params) else None)
            if pname is None:
                continue
            for n in walk_no_nested(target.node):
                if isinstance(n, (ast.Assign, ast.AnnAssign)):
                    tg = n.targets[0] if isinstance(n, ast.Assign) else n.target
                    if isinstance(tg, ast.Attribute) and dotted(tg.value) == 'self' and n.value is not None and any(isinstance(x, ast.Name) and x.id == pname for x in ast.walk(n.value)) and target.cls is not None:
                        self.add(target.cls.qualname, tg.attr, why)

    def tainted_member(self, cls_names: Iterable[str], member: str) -> str | None:
        owners = self.member_names.get(member)
        if not owners:
            return None
        cls_names = list(cls_names)
        if not cls_names:
            return None
        for c in cls_names:
            for o in owners:
                if self.model.is_subclass(c, o) or self.model.is_subclass(o, c):
                    return self.members[(o, member)]
        return None


class Safe:
    def __init__(self, model: Model, taint: Taint, sanitisers: set[str], closed: set[str], safe_calls: set[str], safe_params: set[str]) -> None:
        self.model = model
        self.taint = taint
        self.sanitisers = sanitisers
        self.closed = closed
        self.safe_calls = safe_calls
        self.safe_params = safe_params
        self.env: dict[str, str | None] = {}
        self.triaged: set[tuple[str, str]] = set()
        self._rd: dict[int, object] = {}
        # classes whose text is judged where they are constructed (their str() is then safe)
        self.checked_text_classes: set[str] = set()
        # look into the __str__ of every subclass (class hierarchy) instead of giving up when one overrides it
        self.follow_overrides = False
        # subclasses that the values analysed are never instances of (each with a reason at the rule that sets it)
        self.never_instances: set[str] = set()

    def _reaching(self, fi, name_node: ast.Name):  # noqa: ANN001, ANN202
        from .labels import ReachDefs

        rd = self._rd.get(id(fi.node))
        if rd is None:
            try:
                rd = ReachDefs(fi.node)
            except Exception:  # noqa: BLE001
                rd = False
            self._rd[id(fi.node)] = rd
        if rd is False:
            return None
        return rd.reaching(name_node.id, name_node)  # type: ignore[union-attr]

    def closed_type(self, t: str) -> bool:
        if t in ('?', 'Any'):
            return False
        names = re.findall(r'[A-Za-z_][\w]*(?:\.[A-Za-z_]\w*)+', t)
        if not names:
            return False
        for n in names:
            if n in ('builtins.None',):
                continue
            if n in INT_TYPES:
                continue
            ci = self.model.classes.get(n)
            if ci is not None and any(b in INT_TYPES or b in ('enum.IntEnum', 'enum.Enum') for b in ci.mro):
                continue
            if n in self.closed or (ci is not None and any(b in self.closed for b in ci.mro)):
                continue
            return False
        return True

    def why_tainted(self, e: ast.AST, fi: FuncInfo, sl: Slicer, depth: int = 0, seen: frozenset = frozenset()) -> str | None:
        """None when SAFE, else a reason."""
        m = self.model
        if depth > 12:
            return 'too deep'
        if self.triaged and (fi.qualname, norm(e)) in self.triaged:
            return None
        if isinstance(e, ast.Constant):
            return None
        t = m.type_of(fi.module, e)
        if self.closed_type(t):
            return None
        if isinstance(e, ast.JoinedStr):
            for v in e.values:
                if isinstance(v, ast.FormattedValue):
                    w = self.why_tainted(v.value, fi, sl, depth + 1, seen)
                    if w:
                        return w
            return None
        if isinstance(e, ast.FormattedValue):
            return self.why_tainted(e.value, fi, sl, depth + 1, seen)
        if isinstance(e, ast.IfExp):
            return self.why_tainted(e.body, fi, sl, depth + 1, seen) or self.why_tainted(e.orelse, fi, sl, depth + 1, seen)
        if isinstance(e, ast.BoolOp):
            for v in e.values:
                w = self.why_tainted(v, fi, sl, depth + 1, seen)
                if w:
                    return w
            return None
        if isinstance(e, ast.BinOp) and isinstance(e.op, ast.Add):
            return self.why_tainted(e.left, fi, sl, depth + 1, seen) or self.why_tainted(e.right, fi, sl, depth + 1, seen)
        if isinstance(e, ast.BinOp) and isinstance(e.op, ast.Mod):
            w = self.why_tainted(e.left, fi, sl, depth + 1, seen)
            if w:
                return w
            rs = e.right.elts if isinstance(e.right, ast.Tuple) else [e.right]
            for r in rs:
                w = self.why_tainted(r, fi, sl, depth + 1, seen)
                if w:
                    return w
            return None
        if isinstance(e, ast.Subscript):
            if isinstance(e.slice, ast.Slice) or True:
                return self.why_tainted(e.value, fi, sl, depth + 1, seen)
        if isinstance(e, ast.Call):
            d = dotted(e.func) or ''
            callee = m.callees(fi.module, e)
            if d in self.sanitisers or any(d.endswith('.' + s) for s in self.sanitisers if '.' not in s) or any(c.rsplit('.', 1)[-1] in self.sanitisers or c in self.sanitisers for c in callee):
                return None
            if isinstance(e.func, ast.Attribute) and e.func.attr in ('json', 'v4_json'):
                return None
            if d in self.safe_calls or any(c in self.safe_calls or c.rsplit('.', 1)[-1] in self.safe_calls for c in callee):
                return None
            if isinstance(e.func, ast.Attribute) and e.func.attr in ('join',):
                if not e.args:
                    return None
                a = e.args[0]
                if isinstance(a, (ast.GeneratorExp, ast.ListComp)):
                    return self.why_tainted(a.elt, fi, sl, depth + 1, seen)
                return self.why_tainted(a, fi, sl, depth + 1, seen)
            if isinstance(e.func, ast.Attribute) and e.func.attr in ('format',):
                w = self.why_tainted(e.func.value, fi, sl, depth + 1, seen)
                if w:
                    return w
                for a in list(e.args) + [k.value for k in e.keywords]:
                    w = self.why_tainted(a, fi, sl, depth + 1, seen)
                    if w:
                        return w
                return None
            if isinstance(e.func, ast.Attribute) and e.func.attr in ('lower', 'upper', 'strip', 'rstrip', 'lstrip', 'replace', 'title', 'ljust', 'rjust', 'zfill'):
                return self.why_tainted(e.func.value, fi, sl, depth + 1, seen)
            if isinstance(e.func, ast.Name) and e.func.id in ('str', 'repr', 'format') and e.args:
                a0 = e.args[0]
                ta = m.type_of(fi.module, a0)
                if self.closed_type(ta):
                    return None
                if ta == 'builtins.str' or isinstance(a0, (ast.Call, ast.JoinedStr, ast.Constant, ast.BinOp)) or (isinstance(a0, ast.Name) and a0.id in self.env):
                    # str() of something that is already text (or of a call judged on its own)
                    return self.why_tainted(a0, fi, sl, depth + 1, seen)
                # str() of an object: look at its __str__ / __repr__ when the class is known and not overridden below
                classes = [c for c in m.type_classes(fi.module, a0) if c in m.classes]
                if len(classes) == 1 and depth < 6:
                    cn = classes[0]
                    if cn in self.checked_text_classes:
                        return None
                    for meth in (('__repr__', '__str__') if e.func.id == 'repr' else ('__str__', '__repr__')):
                        f0 = m.effective(cn, meth)
                        if f0 is None and not self.follow_overrides:
                            continue
                        # the static class and every subclass that renders itself differently (class hierarchy)
                        impls = {f0.qualname: f0} if f0 is not None else {}
                        if self.follow_overrides:
                            for sc in m.all_subclasses(cn):
                                if sc in m.classes and meth in m.classes[sc].methods and sc not in self.never_instances:
                                    impls[m.classes[sc].methods[meth].qualname] = m.classes[sc].methods[meth]
                        else:
                            overridden = any(meth in m.classes[sc].methods for sc in m.all_subclasses(cn) if sc in m.classes)
                            if overridden:
                                break
                        if (f0 is not None and f0.qualname in seen) or len(impls) > 60:
                            break
                        if not impls:
                            continue
                        for f in impls.values():
                            if f.qualname in seen:
                                continue
                            sl2 = Slicer(m, f)
                            for r in walk_no_nested(f.node):
                                if isinstance(r, ast.Return) and r.value is not None:
                                    if isinstance(r.value, (ast.Name, ast.Attribute, ast.Subscript)) and not (isinstance(r.value, ast.Name) and r.value.id in sl2.defs):
                                        # a cached / stored text: what it holds is not visible here
                                        return 'str() of %s: %s returns stored text %s' % (norm(a0)[:30], f.qualname.rsplit('.', 2)[-2] + '.' + meth, norm(r.value)[:30])
                                    w = self.why_tainted(r.value, f, sl2, depth + 2, seen | {f.qualname})
                                    if w:
                                        return 'via %s: %s' % (f.qualname.rsplit('.', 2)[-2] + '.' + meth, w)
                        return None
                    if self.follow_overrides:
                        return None  # neither the class nor a subclass defines a rendering: object.__repr__, ASCII
                return 'str() of %s (type %s)' % (norm(a0)[:40], ta)
            if isinstance(e.func, ast.Name) and e.func.id in ('len', 'int', 'hex', 'bin', 'oct', 'ord', 'bool', 'float', 'sum', 'min', 'max', 'abs', 'round'):
                return None
            # method of a wire object returning text
            if isinstance(e.func, ast.Attribute):
                tm = self.taint.tainted_member(m.type_classes(fi.module, e.func.value), e.func.attr)
                if tm:
                    return 'tainted method %s (%s)' % (norm(e.func)[:40], tm)
                if e.func.attr in ('extensive', '__str__', '__repr__', 'feedback') and not (self.follow_overrides and callee):
                    return 'text rendering %s of a non-closed object' % norm(e.func)[:40]
            if t == 'builtins.str' or t in ('?', 'Any'):
                # a str-returning helper: look inside when it is a function of the model
                for c in callee:
                    f = m.funcs.get(c)
                    if f is not None and c not in seen and depth < 6:
                        sl2 = Slicer(m, f)
                        # bind the callee parameters to the verdicts of the arguments in the caller
                        params = [a.arg for a in f.node.args.args]
                        if params and params[0] in ('self', 'cls') and isinstance(e.func, ast.Attribute):
                            params = params[1:]
                        saved = self.env
                        env = dict(saved)
                        for i, a in enumerate(e.args):
                            if i < len(params):
                                env[params[i]] = self.why_tainted(a, fi, sl, depth + 1, seen)
                        for k in e.keywords:
                            if k.arg:
                                env[k.arg] = self.why_tainted(k.value, fi, sl, depth + 1, seen)
                        self.env = env
                        try:
                            for r in walk_no_nested(f.node):
                                if isinstance(r, ast.Return) and r.value is not None:
                                    w = self.why_tainted(r.value, f, sl2, depth + 2, seen | {c})
                                    if w:
                                        return 'via %s: %s' % (c.rsplit('.', 1)[-1], w)
                        finally:
                            self.env = saved
                        return None
                return None if t == 'builtins.str' and callee and all(c.startswith('builtins.') for c in callee) and False else ('unresolved call %s' % norm(e)[:40] if not callee else None)
            return None
        if isinstance(e, ast.Attribute):
            tm = self.taint.tainted_member(m.type_classes(fi.module, e.value), e.attr)
            if tm:
                return 'tainted member %s (%s)' % (norm(e)[:40], tm)
            if t in ('builtins.bytes', 'builtins.bytearray', 'builtins.memoryview'):
                return 'raw bytes %s formatted into text' % norm(e)[:40]
            return None
        if isinstance(e, ast.Name):
            if e.id in self.env and e.id in sl.params:
                return self.env[e.id]
            if e.id in sl.params:
                if e.id in self.safe_params or e.id in ('self', 'cls'):
                    return None
                if t == 'builtins.str' or t in ('?', 'Any', 'builtins.object'):
                    return 'parameter %s (type %s)' % (e.id, t)
                return None if self.closed_type(t) or t.startswith('builtins.') else 'parameter %s (type %s)' % (e.id, t)
            if e.id in seen:
                return None
            defs = sl.defs.get(e.id)
            if not defs:
                return None
            # only the definitions that can reach this use (a local reused for something else further up or down
            # the function says nothing about this value)
            reach = self._reaching(fi, e)
            if reach is not None:
                kept = [(v, st) for v, st in defs if isinstance(st, ast.comprehension) or id(st) in reach]
                if kept:
                    defs = kept
            for v, st in defs:
                if isinstance(st, (ast.For, ast.AsyncFor, ast.comprehension)):
                    # loop variable: elements of the iterable
                    tt = m.type_of(fi.module, e)
                    if self.closed_type(tt):
                        continue
                    w = self.why_tainted(v, fi, sl, depth + 1, seen | {e.id})
                    if w:
                        return w
                    continue
                w = self.why_tainted(v, fi, sl, depth + 1, seen | {e.id})
                if w:
                    return w
            return None
        if isinstance(e, (ast.GeneratorExp, ast.ListComp)):
            return self.why_tainted(e.elt, fi, sl, depth + 1, seen)
        if isinstance(e, ast.Tuple):
            for x in e.elts:
                w = self.why_tainted(x, fi, sl, depth + 1, seen)
                if w:
                    return w
            return None
        if isinstance(e, ast.Await):
            return self.why_tainted(e.value, fi, sl, depth + 1, seen)
        return None


def interpolations(fn: ast.AST) -> list[tuple[ast.AST, ast.AST]]:
    """(container expression, interpolated value) for f-strings, % formatting and .format in a function."""
    out: list[tuple[ast.AST, ast.AST]] = []
    for n in walk_with_lambdas(fn):
        if isinstance(n, ast.JoinedStr):
            for v in n.values:
                if isinstance(v, ast.FormattedValue):
                    out.append((n, v.value))
        elif isinstance(n, ast.BinOp) and isinstance(n.op, ast.Mod) and (isinstance(n.left, ast.Constant) and isinstance(n.left.value, str) or isinstance(n.left, ast.Name)):
            rs = n.right.elts if isinstance(n.right, ast.Tuple) else [n.right]
            if isinstance(n.left, ast.Constant):
                for r in rs:
                    out.append((n, r))
        elif isinstance(n, ast.Call) and isinstance(n.func, ast.Attribute) and n.func.attr == 'format' and isinstance(n.func.value, ast.Constant) and isinstance(n.func.value.value, str):
            for a in list(n.args) + [k.value for k in n.keywords]:
                out.append((n, a))
    return out
