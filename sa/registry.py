"""Static evaluation of the decorator-filled registries."""

from __future__ import annotations

import ast
from typing import Any

from .const import UNKNOWN, Folder
from .model import ClassInfo, Model, dotted


def decorated(model: Model, deco: str) -> list[tuple[ClassInfo, ast.expr]]:
    """Classes carrying decorator `deco` (dotted name, e.g. 'Attribute.register')."""
    out = []
    for ci in model.classes.values():
        for d in ci.node.decorator_list:
            target = d.func if isinstance(d, ast.Call) else d
            if dotted(target) == deco:
                out.append((ci, d))
    out.sort(key=lambda x: x[0].qualname)
    return out


def class_flag(model: Model, folder: Folder, ci: ClassInfo, name: str) -> Any:
    r = model.effective_assign(ci.qualname, name)
    if r is None:
        return UNKNOWN
    return folder.fold(r[1], r[0].module, r[0])


def attributes(model: Model, folder: Folder) -> list[dict]:
    out = []
    for ci, _ in decorated(model, 'Attribute.register'):
        rec = {'cls': ci}
        for flag in ('ID', 'FLAG', 'TREAT_AS_WITHDRAW', 'DISCARD', 'NO_DUPLICATE', 'VALID_ZERO', 'MANDATORY', 'NO_GENERATION', 'GENERIC', 'CACHING'):
            rec[flag] = class_flag(model, folder, ci, flag)
        out.append(rec)
    return out


def messages(model: Model, folder: Folder) -> list[dict]:
    out = []
    for ci, _ in decorated(model, 'Message.register'):
        out.append({'cls': ci, 'ID': class_flag(model, folder, ci, 'ID'), 'TYPE': class_flag(model, folder, ci, 'TYPE')})
    return out


def nlris(model: Model, folder: Folder) -> list[dict]:
    out = []
    for ci, d in decorated(model, 'NLRI.register'):
        args = []
        if isinstance(d, ast.Call):
            for a in d.args:
                args.append(folder.fold(a, ci.module, None))
        out.append({'cls': ci, 'args': args, 'deco': d})
    return out


def capabilities(model: Model, folder: Folder) -> list[dict]:
    out = []
    for ci, d in decorated(model, 'Capability.register'):
        args = []
        if isinstance(d, ast.Call):
            for a in d.args:
                args.append(folder.fold(a, ci.module, None))
        out.append({'cls': ci, 'args': args, 'ID': class_flag(model, folder, ci, 'ID')})
    return out
