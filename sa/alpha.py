"""Name-independent access to local variables.

Rules must not depend on what a local variable happens to be called: a rename is a behaviour-preserving edit.  The
helpers here let a rule say "the variable that receives the result of X" (def-chasing), compare expressions after
inlining single-definition locals, and match statements against patterns whose local names are metavariables.

  Loc(model, fi)            definitions of every local of one function (nested functions excluded)
  Loc.from_call(*suffixes)  names bound to the result of a call resolving to one of the suffixes
  Loc.from_value(pred)      names with a definition whose value satisfies pred
  Loc.resolve(expr)         follow single-definition locals to their defining expression
  Loc.expand(node)          ast.unparse with single-definition locals inlined (rename-proof text)
  amatch(pattern, node)     structural match, `V_x` = any local/parameter name (consistent), `E_x` = any expression
  afind(pattern, root)      all matches below root
"""

from __future__ import annotations

import ast
import copy
from typing import Callable, Iterable, Iterator

from .model import FuncInfo, Model, walk_no_nested


class Loc:
    def __init__(self, model: Model, fi: FuncInfo) -> None:
        self.model = model
        self.fi = fi
        self.params = [a.arg for a in fi.node.args.posonlyargs + fi.node.args.args + fi.node.args.kwonlyargs]
        # name -> [(value expression or None, how, statement)]
        self.defs: dict[str, list[tuple[ast.AST | None, str, ast.AST]]] = {}
        for n in walk_no_nested(fi.node):
            if isinstance(n, ast.Assign):
                for tg in n.targets:
                    self._bind(tg, n.value, 'assign', n)
            elif isinstance(n, ast.AnnAssign) and n.value is not None:
                self._bind(n.target, n.value, 'assign', n)
            elif isinstance(n, ast.AugAssign):
                self._bind(n.target, n.value, 'aug', n)
            elif isinstance(n, (ast.For, ast.AsyncFor)):
                self._bind(n.target, n.iter, 'for', n)
            elif isinstance(n, (ast.With, ast.AsyncWith)):
                for it in n.items:
                    if it.optional_vars is not None:
                        self._bind(it.optional_vars, it.context_expr, 'with', n)
            elif isinstance(n, ast.NamedExpr):
                self._bind(n.target, n.value, 'assign', n)
            elif isinstance(n, ast.ExceptHandler) and n.name:
                self.defs.setdefault(n.name, []).append((n.type, 'except', n))
        for ds in self.defs.values():
            ds.sort(key=lambda d: (getattr(d[2], 'lineno', 0), getattr(d[2], 'col_offset', 0)))

    def _bind(self, tg: ast.AST, value: ast.AST | None, how: str, st: ast.AST) -> None:
        if isinstance(tg, ast.Name):
            self.defs.setdefault(tg.id, []).append((value, how, st))
        elif isinstance(tg, (ast.Tuple, ast.List)):
            for i, e in enumerate(tg.elts):
                if isinstance(value, (ast.Tuple, ast.List)) and len(value.elts) == len(tg.elts) and how == 'assign':
                    self._bind(e, value.elts[i], how, st)
                else:
                    self._bind(e, value, '%s[%d]' % (how, i), st)
        elif isinstance(tg, ast.Starred):
            self._bind(tg.value, value, how + '[*]', st)

    # ------------------------------------------------------------------ lookups
    def is_local(self, name: str) -> bool:
        return name in self.defs and name not in self.params

    def from_value(self, pred: Callable[[ast.AST], bool], how: str | None = None) -> list[str]:
        out = []
        for nm, ds in self.defs.items():
            for v, h, _ in ds:
                if v is not None and (how is None or h == how or h.startswith(how)) and pred(v):
                    out.append(nm)
                    break
        return out

    def from_call(self, *suffixes: str, how: str | None = None) -> list[str]:
        mod = self.fi.module

        def pred(v: ast.AST) -> bool:
            if isinstance(v, ast.Await):
                v = v.value
            return isinstance(v, ast.Call) and self.model.call_matches(mod, v, *suffixes)

        return self.from_value(pred, how)

    def unpacked_from_call(self, *suffixes: str) -> dict[int, str]:
        """`a, b, c = f(...)` -> {0: 'a', 1: 'b', 2: 'c'} for the first such statement."""
        mod = self.fi.module
        for n in walk_no_nested(self.fi.node):
            if isinstance(n, ast.Assign) and isinstance(n.targets[0], (ast.Tuple, ast.List)):
                v = n.value.value if isinstance(n.value, ast.Await) else n.value
                if isinstance(v, ast.Call) and self.model.call_matches(mod, v, *suffixes):
                    return {i: e.id for i, e in enumerate(n.targets[0].elts) if isinstance(e, ast.Name)}
        return {}

    def values(self, name: str) -> list[ast.AST]:
        return [v for v, h, _ in self.defs.get(name, []) if v is not None]

    def single(self, name: str) -> ast.AST | None:
        ds = self.defs.get(name, [])
        if len(ds) == 1 and ds[0][1] == 'assign' and name not in self.params:
            return ds[0][0]
        return None

    def resolve(self, expr: ast.AST, depth: int = 6) -> ast.AST:
        while depth and isinstance(expr, ast.Name):
            v = self.single(expr.id)
            if v is None:
                break
            expr = v
            depth -= 1
        return expr

    def expand(self, node: ast.AST, depth: int = 4, keep: Iterable[str] = ()) -> str:
        return ast.unparse(self.expanded(node, depth, keep))

    def expanded(self, node: ast.AST, depth: int = 4, keep: Iterable[str] = ()) -> ast.AST:
        """node with single-definition locals inlined, except the names in `keep`."""
        loc = self
        kept = set(keep)
        if '*' in kept:
            return copy.deepcopy(node)

        class T(ast.NodeTransformer):
            def __init__(self, d: int) -> None:
                self.d = d

            def visit_Name(self, n: ast.Name) -> ast.AST:
                if isinstance(n.ctx, ast.Load) and self.d > 0 and n.id not in kept:
                    v = loc.single(n.id)
                    if v is not None:
                        return T(self.d - 1).visit(copy.deepcopy(v))
                return n

        return ast.fix_missing_locations(T(depth).visit(copy.deepcopy(node)))

    def aliases(self, name: str) -> set[str]:
        """names that are plain copies of `name` (x = name), transitively, plus name itself."""
        out = {name}
        changed = True
        while changed:
            changed = False
            for nm, ds in self.defs.items():
                if nm in out:
                    continue
                if any(isinstance(v, ast.Name) and v.id in out and h == 'assign' for v, h, _ in ds):
                    out.add(nm)
                    changed = True
        return out

    def reads(self, node: ast.AST) -> set[str]:
        return {n.id for n in ast.walk(node) if isinstance(n, ast.Name)}

    def depends_on(self, expr: ast.AST, names: Iterable[str], depth: int = 6) -> bool:
        """does expr read one of names, directly or through local definitions?"""
        want = set(names)
        seen: set[str] = set()
        work = [expr]
        while work and depth >= 0:
            nxt = []
            for e in work:
                for nm in self.reads(e):
                    if nm in want:
                        return True
                    if nm not in seen:
                        seen.add(nm)
                        nxt.extend(self.values(nm))
            work = nxt
            depth -= 1
        return False


# ---------------------------------------------------------------------------------------------- pattern matching
def _pat(pattern: str | ast.AST) -> ast.AST:
    if isinstance(pattern, ast.AST):
        return pattern
    tree = ast.parse(pattern)
    if len(tree.body) == 1:
        st = tree.body[0]
        return st.value if isinstance(st, ast.Expr) else st
    return tree


def amatch(pattern: str | ast.AST, node: ast.AST, binds: dict[str, object] | None = None) -> dict[str, object] | None:
    """Structural equality of pattern and node.  In the pattern a Name `V_x` matches any Name (bound consistently),
    `E_x` any expression (bound consistently by unparse).  Returns the bindings (a new dict) or None."""
    b = dict(binds or {})
    return b if _m(_pat(pattern), node, b) else None


def _m(p: object, n: object, b: dict[str, object]) -> bool:
    if isinstance(p, ast.Name):
        if p.id.startswith('V_'):
            if not isinstance(n, ast.Name):
                return False
            if p.id in b:
                return b[p.id] == n.id
            b[p.id] = n.id
            return True
        if p.id.startswith('E_'):
            if not isinstance(n, ast.expr):
                return False
            txt = ast.unparse(n)
            if p.id in b:
                return b[p.id] == txt
            b[p.id] = txt
            return True
    if isinstance(p, ast.AST):
        if type(p) is not type(n):
            return False
        for f in p._fields:
            if f in ('ctx', 'type_comment', 'kind'):
                continue
            if not _m(getattr(p, f, None), getattr(n, f, None), b):
                return False
        return True
    if isinstance(p, list):
        if not isinstance(n, list) or len(p) != len(n):
            return False
        return all(_m(x, y, b) for x, y in zip(p, n))
    return p == n


def afind(pattern: str | ast.AST, root: ast.AST, binds: dict[str, object] | None = None, nested: bool = False) -> Iterator[tuple[ast.AST, dict[str, object]]]:
    p = _pat(pattern)
    it = ast.walk(root) if nested else walk_no_nested(root)
    for n in it:
        if type(n) is type(p):
            r = amatch(p, n, binds)
            if r is not None:
                yield n, r


def ahas(pattern: str | ast.AST, root: ast.AST, binds: dict[str, object] | None = None) -> bool:
    return next(afind(pattern, root, binds), None) is not None


# ---------------------------------------------------------------------------------------------- canonical guard facts
_NEG = {ast.Lt: ast.GtE, ast.GtE: ast.Lt, ast.Gt: ast.LtE, ast.LtE: ast.Gt, ast.Eq: ast.NotEq, ast.NotEq: ast.Eq, ast.Is: ast.IsNot, ast.IsNot: ast.Is, ast.In: ast.NotIn, ast.NotIn: ast.In}
_SYM = {ast.Lt: '<', ast.GtE: '>=', ast.Gt: '>', ast.LtE: '<=', ast.Eq: '==', ast.NotEq: '!=', ast.Is: 'is', ast.IsNot: 'is not', ast.In: 'in', ast.NotIn: 'not in'}
_SWAP = {ast.Lt: ast.Gt, ast.Gt: ast.Lt, ast.LtE: ast.GtE, ast.GtE: ast.LtE}


def canon_fact(loc: Loc, test: ast.AST, pol: bool, keep: Iterable[str] = ()) -> str:
    """One guard as a canonical sentence: single-definition locals inlined, `not` folded into the polarity, a negated
    comparison written with the opposite operator.  `if left <= 0` and `if left > 0: return ...; <here>` both read
    `<expr> <= 0` / `<expr> > 0` whatever `left` is called."""
    t = loc.expanded(test, keep=keep)
    while isinstance(t, ast.UnaryOp) and isinstance(t.op, ast.Not):
        t = t.operand
        pol = not pol
    if isinstance(t, ast.Compare) and len(t.ops) == 1 and type(t.ops[0]) in _NEG:
        op = type(t.ops[0])
        if not pol:
            op = _NEG[op]
        return '%s %s %s' % (ast.unparse(t.left), _SYM[op], ast.unparse(t.comparators[0]))
    return ('' if pol else 'not ') + ast.unparse(t)


def facts(loc: Loc, node: ast.AST, keep: Iterable[str] = ()) -> set[str]:
    """canonical guards under which `node` runs (syntactic guards with early exits, see flow.flat_guards)"""
    from .flow import flat_guards

    out: set[str] = set()

    def split(t: ast.AST, pol: bool) -> None:
        # decompose AFTER inlining the locals: `flag = a or b; if not flag:` gives `not a`, `not b`
        while isinstance(t, ast.UnaryOp) and isinstance(t.op, ast.Not):
            t, pol = t.operand, not pol
        if isinstance(t, ast.BoolOp) and ((isinstance(t.op, ast.And) and pol) or (isinstance(t.op, ast.Or) and not pol)):
            for v in t.values:
                split(v, pol)
            return
        out.add(canon_fact(loc, t, pol, keep=['*']))

    for t, p in flat_guards(loc.fi.node, node):
        split(loc.expanded(t, keep=keep), p)
    return out


def value_cases(loc: Loc, node: ast.AST, value: ast.AST | None, keep: Iterable[str] = (), depth: int = 6) -> list[tuple[set[str], ast.AST]]:
    """The values `value` (an expression of the statement `node`) can take, each with the canonical facts it is taken
    under: the guards of the statement, plus the tests of the conditional expressions it is written with once the locals
    are inlined.  `x = None if flag else y` and `if flag: x = None / else: x = y` give the same two cases."""
    out: list[tuple[set[str], ast.AST]] = []
    if value is None:
        return out
    base = facts(loc, node, keep=keep)

    def add_test(fs: set[str], t: ast.AST, pol: bool) -> set[str]:
        res = set(fs)

        def split(t: ast.AST, pol: bool) -> None:
            while isinstance(t, ast.UnaryOp) and isinstance(t.op, ast.Not):
                t, pol = t.operand, not pol
            if isinstance(t, ast.BoolOp) and ((isinstance(t.op, ast.And) and pol) or (isinstance(t.op, ast.Or) and not pol)):
                for v in t.values:
                    split(v, pol)
                return
            res.add(canon_fact(loc, t, pol, keep=['*']))

        split(t, pol)
        return res

    def go(e: ast.AST, fs: set[str], d: int) -> None:
        if isinstance(e, ast.Call) and isinstance(e.func, ast.IfExp) and d > 0:
            f = e.func
            for br, pol in ((f.body, True), (f.orelse, False)):
                c = copy.copy(e)
                c.func = br
                go(c, add_test(fs, f.test, pol), d - 1)
            return
        if isinstance(e, ast.IfExp) and d > 0:
            go(e.body, add_test(fs, e.test, True), d - 1)
            go(e.orelse, add_test(fs, e.test, False), d - 1)
            return
        out.append((fs, e))

    go(loc.expanded(value, depth=depth, keep=keep), base, 4)
    return out
