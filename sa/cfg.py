"""Statement-level control-flow graph for one function, with dominators.

Node kinds:
  entry, exit (normal return / fall through), raise (exception escapes the function)
  stmt   : a simple statement (Assign, Expr, Return, Raise, ...); `with` headers; `for` targets
  test   : the condition of if / while (edges 'true' / 'false'), for-header ('true' = next item,
           'false' = exhausted), except-dispatch
  handler: entry of an `except` clause (ast = ExceptHandler)
  join   : structural no-op

Edges carry a label: 'next', 'true', 'false', 'exc', 'back'.
Exception edges: every statement for which may_raise(stmt) is true has an 'exc' edge to the
innermost enclosing try dispatch (or to the function's raise exit).  A dispatch has an edge to
every handler and, unless one handler is bare or catches BaseException/Exception (see
`catch_all`), an edge onward to the outer exception target.
"""

from __future__ import annotations

import ast
from dataclasses import dataclass, field
from typing import Callable, Iterable, Iterator


@dataclass
class Node:
    id: int
    kind: str
    ast: ast.AST | None = None
    succ: list[tuple[int, str]] = field(default_factory=list)
    pred: list[tuple[int, str]] = field(default_factory=list)
    copy: int = 0  # >0 for duplicated finally bodies

    def __repr__(self) -> str:
        line = getattr(self.ast, 'lineno', '-')
        return '<%d %s L%s>' % (self.id, self.kind, line)


def default_may_raise(st: ast.AST) -> bool:
    if isinstance(st, (ast.Raise, ast.Assert)):
        return True
    for n in _walk_expr(st):
        if isinstance(n, (ast.Call, ast.Await, ast.Yield, ast.YieldFrom, ast.Subscript)):
            return True
    return False


def _walk_expr(st: ast.AST) -> Iterator[ast.AST]:
    stack = [st]
    first = True
    while stack:
        n = stack.pop()
        if not first and isinstance(n, (ast.FunctionDef, ast.AsyncFunctionDef, ast.ClassDef, ast.Lambda)):
            continue
        first = False
        yield n
        stack.extend(ast.iter_child_nodes(n))


_CATCH_ALL = {'Exception', 'BaseException'}


def handler_names(h: ast.ExceptHandler) -> list[str]:
    if h.type is None:
        return ['*']
    ts = h.type.elts if isinstance(h.type, ast.Tuple) else [h.type]
    out = []
    for t in ts:
        if isinstance(t, ast.Name):
            out.append(t.id)
        elif isinstance(t, ast.Attribute):
            out.append(t.attr)
        else:
            out.append('?')
    return out


class CFG:
    def __init__(self, fn: ast.FunctionDef | ast.AsyncFunctionDef, may_raise: Callable[[ast.AST], bool] = default_may_raise) -> None:
        self.fn = fn
        self.nodes: list[Node] = []
        self.may_raise = may_raise
        self.entry = self._new('entry')
        self.exit = self._new('exit')
        self.raise_exit = self._new('raise')
        self._loops: list[tuple[int, int]] = []  # (continue target, break target)
        self._exc: list[int] = [self.raise_exit.id]
        self._finally: list[tuple[list[ast.stmt], int, int]] = []  # (finalbody, depth of loops, depth of exc)
        self._copy = 0
        self.of_ast: dict[int, list[Node]] = {}
        end = self._block(fn.body, [self.entry.id])
        self._connect(end, self.exit.id, 'next')
        self._dom: dict[int, set[int]] | None = None
        self._pdom: dict[int, set[int]] | None = None

    # ------------------------------------------------------------------ construction
    def _new(self, kind: str, node: ast.AST | None = None) -> Node:
        n = Node(len(self.nodes), kind, node, copy=getattr(self, '_copy', 0))
        self.nodes.append(n)
        if node is not None:
            self.of_ast.setdefault(id(node), []).append(n)
        return n

    def _edge(self, a: int, b: int, label: str) -> None:
        if (b, label) not in self.nodes[a].succ:
            self.nodes[a].succ.append((b, label))
            self.nodes[b].pred.append((a, label))

    def _connect(self, preds: list, target: int, label: str) -> None:
        for p in preds:
            if isinstance(p, tuple):
                self._edge(p[0], target, p[1])
            else:
                self._edge(p, target, label)

    def _link(self, preds: list[int], n: Node, label: str = 'next') -> None:
        for p in preds:
            if isinstance(p, tuple):
                self._edge(p[0], n.id, p[1])
            else:
                self._edge(p, n.id, label)

    def _block(self, body: list[ast.stmt], preds: list) -> list:
        cur = preds
        for st in body:
            if not cur:
                # unreachable code: still build it (disconnected) so that nodes exist
                cur = []
            cur = self._stmt(st, cur)
        return cur

    def _exc_edge(self, n: Node) -> None:
        self._edge(n.id, self._exc[-1], 'exc')

    def _stmt(self, st: ast.stmt, preds: list) -> list:
        if isinstance(st, (ast.FunctionDef, ast.AsyncFunctionDef, ast.ClassDef)):
            n = self._new('stmt', st)
            self._link(preds, n)
            return [n.id]
        if isinstance(st, ast.If):
            t = self._new('test', st)
            self._link(preds, t)
            if self.may_raise(st.test):
                self._exc_edge(t)
            out_true = self._block(st.body, [(t.id, 'true')])
            if st.orelse:
                out_false = self._block(st.orelse, [(t.id, 'false')])
            else:
                out_false = [(t.id, 'false')]
            return out_true + out_false
        if isinstance(st, ast.While):
            t = self._new('test', st)
            self._link(preds, t)
            if self.may_raise(st.test):
                self._exc_edge(t)
            brk = self._new('join', None)
            self._loops.append((t.id, brk.id))
            body_out = self._block(st.body, [(t.id, 'true')])
            self._loops.pop()
            for p in body_out:
                if isinstance(p, tuple):
                    self._edge(p[0], t.id, p[1])
                else:
                    self._edge(p, t.id, 'back')
            const_true = isinstance(st.test, ast.Constant) and bool(st.test.value)
            outs: list = []
            if not const_true:
                if st.orelse:
                    outs = self._block(st.orelse, [(t.id, 'false')])
                else:
                    outs = [(t.id, 'false')]
            self._link(outs, brk)
            return [brk.id]
        if isinstance(st, (ast.For, ast.AsyncFor)):
            t = self._new('test', st)
            self._link(preds, t)
            if self.may_raise(st.iter) or isinstance(st, ast.AsyncFor):
                self._exc_edge(t)
            else:
                self._exc_edge(t)  # iteration itself may raise
            brk = self._new('join', None)
            self._loops.append((t.id, brk.id))
            body_out = self._block(st.body, [(t.id, 'true')])
            self._loops.pop()
            for p in body_out:
                if isinstance(p, tuple):
                    self._edge(p[0], t.id, p[1])
                else:
                    self._edge(p, t.id, 'back')
            if st.orelse:
                outs = self._block(st.orelse, [(t.id, 'false')])
            else:
                outs = [(t.id, 'false')]
            self._link(outs, brk)
            return [brk.id]
        if isinstance(st, (ast.With, ast.AsyncWith)):
            n = self._new('stmt', st)
            self._link(preds, n)
            self._exc_edge(n)
            return self._block(st.body, [n.id])
        if isinstance(st, ast.Try):
            return self._try(st, preds)
        if isinstance(st, ast.Return):
            n = self._new('stmt', st)
            self._link(preds, n)
            if st.value is not None and self.may_raise(st.value):
                self._exc_edge(n)
            cur = [n.id]
            cur = self._run_finallies(cur, 0, for_loop=False)
            self._connect(cur, self.exit.id, 'next')
            return []
        if isinstance(st, ast.Raise):
            n = self._new('stmt', st)
            self._link(preds, n)
            self._exc_edge(n)
            return []
        if isinstance(st, ast.Break):
            n = self._new('stmt', st)
            self._link(preds, n)
            cur = self._run_finallies([n.id], len(self._loops), for_loop=True)
            self._connect(cur, self._loops[-1][1], 'next')
            return []
        if isinstance(st, ast.Continue):
            n = self._new('stmt', st)
            self._link(preds, n)
            cur = self._run_finallies([n.id], len(self._loops), for_loop=True)
            self._connect(cur, self._loops[-1][0], 'back')
            return []
        # simple statement
        n = self._new('stmt', st)
        self._link(preds, n)
        if self.may_raise(st):
            self._exc_edge(n)
        return [n.id]

    def _run_finallies(self, cur: list, loop_depth: int, for_loop: bool) -> list:
        """Inline copies of the enclosing finally bodies crossed by return/break/continue."""
        for finalbody, ldepth, _ in reversed(self._finally):
            if for_loop and ldepth >= loop_depth:
                # the finally is inside the loop being left/continued only if it was opened
                # after the loop: ldepth == loop_depth means opened inside the current loop
                pass
            if for_loop and ldepth < loop_depth:
                break
            self._copy += 1
            saved = self._finally
            self._finally = []
            cur = self._block(finalbody, cur)
            self._finally = saved
            self._copy -= 1
        return cur

    def _try(self, st: ast.Try, preds: list) -> list:
        outer_exc = self._exc[-1]
        has_finally = bool(st.finalbody)
        # exceptional finally copy: runs then continues to the outer exception target
        if has_finally:
            fin_exc_entry = self._new('join', None)
            self._copy += 1
            saved_f = self._finally
            fin_out = self._block(st.finalbody, [fin_exc_entry.id])
            self._finally = saved_f
            self._copy -= 1
            for c in fin_out:
                if isinstance(c, tuple):
                    self._edge(c[0], outer_exc, 'exc')
                else:
                    self._edge(c, outer_exc, 'exc')
            after_handlers_exc = fin_exc_entry.id
        else:
            after_handlers_exc = outer_exc

        outs: list = []
        if st.handlers:
            disp = self._new('test', st)  # the dispatch node (ast = the Try)
            disp.kind = 'dispatch'
            self._exc.append(disp.id)
        else:
            disp = None
            self._exc.append(after_handlers_exc)
        if has_finally:
            self._finally.append((st.finalbody, len(self._loops), len(self._exc)))
        body_out = self._block(st.body, preds)
        self._exc.pop()
        # else clause: exceptions there are not caught by this try's handlers
        self._exc.append(after_handlers_exc)
        if st.orelse:
            body_out = self._block(st.orelse, body_out)
        outs.extend(body_out)
        if disp is not None:
            catch_all = False
            for h in st.handlers:
                hn = self._new('handler', h)
                self._edge(disp.id, hn.id, 'exc')
                names = handler_names(h)
                if '*' in names or any(x in _CATCH_ALL for x in names):
                    catch_all = True
                outs.extend(self._block(h.body, [hn.id]))
            if not catch_all:
                self._edge(disp.id, after_handlers_exc, 'exc')
        self._exc.pop()
        if has_finally:
            self._finally.pop()
            outs = self._block(st.finalbody, outs)
        return outs

    # ------------------------------------------------------------------ queries
    def node_of(self, a: ast.AST, copy: int | None = 0) -> Node | None:
        ns = self.of_ast.get(id(a), [])
        for n in ns:
            if copy is None or n.copy == copy:
                return n
        return ns[0] if ns else None

    def nodes_of(self, a: ast.AST) -> list[Node]:
        return list(self.of_ast.get(id(a), []))

    def stmt_node_containing(self, expr: ast.AST) -> Node | None:
        """The CFG node whose statement (or test expression) contains `expr`."""
        for n in self.nodes:
            if n.ast is None or n.copy:
                continue
            if n.kind in ('test', 'dispatch'):
                roots: list[ast.AST] = []
                if isinstance(n.ast, (ast.If, ast.While)):
                    roots = [n.ast.test]
                elif isinstance(n.ast, (ast.For, ast.AsyncFor)):
                    roots = [n.ast.iter, n.ast.target]
            elif n.kind == 'stmt':
                if isinstance(n.ast, (ast.With, ast.AsyncWith)):
                    roots = [i for it in n.ast.items for i in ([it.context_expr] + ([it.optional_vars] if it.optional_vars else []))]
                elif isinstance(n.ast, (ast.FunctionDef, ast.AsyncFunctionDef, ast.ClassDef)):
                    continue
                else:
                    roots = [n.ast]
            elif n.kind == 'handler':
                roots = [n.ast.type] if getattr(n.ast, 'type', None) is not None else []
            else:
                continue
            for r in roots:
                for x in _walk_expr(r):
                    if x is expr:
                        return n
        return None

    def reachable(self, start: int | None = None, skip_labels: Iterable[str] = ()) -> set[int]:
        skip = set(skip_labels)
        s = self.entry.id if start is None else start
        seen = {s}
        stack = [s]
        while stack:
            x = stack.pop()
            for y, lab in self.nodes[x].succ:
                if lab in skip or y in seen:
                    continue
                seen.add(y)
                stack.append(y)
        return seen

    def dominators(self) -> dict[int, set[int]]:
        if self._dom is None:
            self._dom = _dominators(
                [n.id for n in self.nodes], self.entry.id, lambda i: [p for p, _ in self.nodes[i].pred], self.reachable()
            )
        return self._dom

    def postdominators(self, include_raise: bool = True) -> dict[int, set[int]]:
        """Post-dominators w.r.t. a virtual sink joined from exit (and the raise exit)."""
        sink = -1
        sinks = [self.exit.id] + ([self.raise_exit.id] if include_raise else [])

        def preds(i: int) -> list[int]:
            if i == sink:
                return []
            out = [s for s, _ in self.nodes[i].succ]
            if i in sinks:
                out.append(sink)
            return out

        ids = [n.id for n in self.nodes] + [sink]
        # reachability backwards from sink
        back: dict[int, list[int]] = {i: [] for i in ids}
        for n in self.nodes:
            for s, _ in n.succ:
                back[s].append(n.id)
        for s in sinks:
            back[sink].append(s)
        seen = {sink}
        st = [sink]
        while st:
            x = st.pop()
            for y in back[x]:
                if y not in seen:
                    seen.add(y)
                    st.append(y)
        return _dominators(ids, sink, preds, seen)

    def dominates(self, a: Node, b: Node) -> bool:
        return a.id in self.dominators().get(b.id, set())

    def all_paths_pass(self, src: int, targets: set[int], stops: set[int], skip_labels: Iterable[str] = ()) -> tuple[bool, list[int]]:
        """True if every path from `src` reaching one of `stops` passes a node of `targets`
        first.  Returns (ok, witness path avoiding targets)."""
        skip = set(skip_labels)
        seen = {src}
        parent: dict[int, int] = {}
        stack = [src]
        while stack:
            x = stack.pop()
            if x in stops and x != src:
                path = [x]
                while path[-1] in parent:
                    path.append(parent[path[-1]])
                return False, list(reversed(path))
            for y, lab in self.nodes[x].succ:
                if lab in skip or y in seen or y in targets:
                    continue
                seen.add(y)
                parent[y] = x
                stack.append(y)
        return True, []

    def describe_path(self, path: list[int]) -> list[str]:
        out = []
        for i in path:
            n = self.nodes[i]
            if n.ast is not None:
                out.append('%s@L%s' % (n.kind, getattr(n.ast, 'lineno', '?')))
            else:
                out.append(n.kind)
        return out


def _dominators(ids: list[int], root: int, preds: Callable[[int], list[int]], reach: set[int]) -> dict[int, set[int]]:
    ids = [i for i in ids if i in reach]
    allset = set(ids)
    dom: dict[int, set[int]] = {i: set(allset) for i in ids}
    dom[root] = {root}
    changed = True
    # order: simple iteration until fixpoint (functions are small)
    while changed:
        changed = False
        for i in ids:
            if i == root:
                continue
            ps = [p for p in preds(i) if p in reach]
            if not ps:
                new = {i}
            else:
                new = set.intersection(*(dom[p] for p in ps)) | {i}
            if new != dom[i]:
                dom[i] = new
                changed = True
    return dom
