"""Rule results, evidence, known findings, exit codes."""

from __future__ import annotations

import hashlib
import json
import os
import re
import time
from dataclasses import dataclass, field
from typing import Any

VERIF = os.path.dirname(os.path.dirname(os.path.abspath(__file__)))
KNOWN_FILE = os.path.join(VERIF, 'known_findings.json')


@dataclass
class Finding:
    rule: str  # e.g. C08.R1
    construct: str  # qualified construct: function / class / table entry
    what: str  # normalised statement text or instance name (part of the key)
    where: str  # file:line (information only, never part of the key)
    reason: str
    witness: list[str] = field(default_factory=list)

    @property
    def key(self) -> str:
        return '%s|%s|%s' % (self.rule, self.construct, re.sub(r'\s+', ' ', self.what).strip())

    @property
    def short(self) -> str:
        return hashlib.sha1(self.key.encode()).hexdigest()[:10]


class Run:
    """Collects what one check run analysed and found."""

    def __init__(self, prop: str, tier: str, seed: int) -> None:
        self.prop = prop
        self.tier = tier
        self.seed = seed
        self.t0 = time.time()
        self.obligations = 0
        self.discharged = 0
        self.findings: list[Finding] = []
        self.rules: dict[str, dict[str, Any]] = {}
        self.samples: list[Any] = []
        self.functions: set[str] = set()
        self.modules: set[str] = set()
        self.call_sites = 0
        self.paths = 0
        self.assumptions: list[str] = []
        self.errors: list[str] = []
        self.extra: dict[str, Any] = {}
        self._cur: str | None = None

    # ------------------------------------------------------------------ rule bookkeeping
    def rule(self, rid: str, text: str, floor: int = 1) -> None:
        self._cur = rid
        self.rules[rid] = {'text': text, 'instances': 0, 'held': 0, 'violated': 0, 'floor': floor, 'examples': []}

    def analysed(self, fn: Any) -> None:
        """Record a function (FuncInfo) as analysed."""
        try:
            self.functions.add(fn.qualname)
            self.modules.add(fn.module.rel)
        except AttributeError:
            self.functions.add(str(fn))

    def ok(self, instance: str, detail: str = '') -> None:
        assert self._cur is not None
        r = self.rules[self._cur]
        r['instances'] += 1
        r['held'] += 1
        self.obligations += 1
        self.discharged += 1
        if len(r['examples']) < 4:
            r['examples'].append({'instance': instance, 'verdict': 'holds', 'detail': detail})

    def violation(self, construct: str, what: str, where: str, reason: str, witness: list[str] | None = None) -> None:
        assert self._cur is not None
        r = self.rules[self._cur]
        r['instances'] += 1
        r['violated'] += 1
        self.obligations += 1
        f = Finding(self._cur, construct, what, where, reason, witness or [])
        self.findings.append(f)
        r['examples'].append({'instance': construct + ' :: ' + what, 'verdict': 'violated', 'detail': reason})

    def check(self, cond: bool, construct: str, what: str, where: str, reason: str, detail: str = '') -> bool:
        if cond:
            self.ok(construct + ' :: ' + what, detail)
        else:
            self.violation(construct, what, where, reason)
        return cond

    def cannot(self, msg: str) -> None:
        self.errors.append('%s: %s' % (self._cur or self.prop, msg))

    def require(self, cond: bool, msg: str) -> None:
        if not cond:
            self.cannot(msg)

    # ------------------------------------------------------------------ finish
    def finish(self) -> int:
        # instance floors: a rule matching fewer sites than confirmed by hand is analysis-broken
        for rid, r in self.rules.items():
            if r['instances'] < r['floor']:
                self.errors.append('%s: %d instances, below the confirmed floor %d' % (rid, r['instances'], r['floor']))
        known = load_known()
        new: list[Finding] = []
        listed: list[tuple[Finding, dict]] = []
        for f in self.findings:
            k = known.get(f.key)
            if k is not None and k.get('status') == 'known':
                listed.append((f, k))
            else:
                new.append(f)
        # de-duplicate
        seen = set()
        uniq = []
        for f in new:
            if f.key not in seen:
                seen.add(f.key)
                uniq.append(f)
        new = uniq
        for f, k in listed:
            print('KNOWN-FINDING: property=%s %s %s [%s] %s' % (self.prop, f.rule, f.construct, f.where, k.get('what', f.reason)))
        code = 0
        if self.errors:
            for e in self.errors:
                print('ANALYSIS-ERROR property=%s %s' % (self.prop, e))
            code = 2
        # a violation found by a rule that itself ran to completion stands, whatever happened to other rules; one found
        # by a rule that could not complete its own analysis is not believed
        broken_rules = {e.split(':', 1)[0] for e in self.errors}
        reportable = [f for f in new if f.rule not in broken_rules and self.prop not in broken_rules]
        hidden = [f for f in new if f not in reportable]
        if reportable:
            new_all, new = new, reportable
            out = os.environ.get('VERIF_OUT', VERIF)
            os.makedirs(os.path.join(out, 'replay'), exist_ok=True)
            for f in new:
                path = os.path.join(out, 'replay', '%s.%s.%s.json' % (self.prop, f.rule.split('.')[-1], f.short))
                with open(path, 'w') as fh:
                    json.dump(
                        {
                            'property': self.prop,
                            'rule': f.rule,
                            'construct': f.construct,
                            'what': f.what,
                            'where': f.where,
                            'reason': f.reason,
                            'witness': f.witness,
                            'key': f.key,
                        },
                        fh,
                        indent=1,
                    )
                print('VIOLATION property=%s replay=%s' % (self.prop, path))
                print('  %s %s %s :: %s' % (f.where, f.rule, f.construct, f.what))
                print('  reason: %s' % f.reason)
                for w in f.witness[:12]:
                    print('    ' + w)
            code = 1
        for f in hidden:
            print('  (unreported because the analysis of its rule is broken) %s %s %s :: %s -- %s' % (f.where, f.rule, f.construct, f.what, f.reason))
        self.write_evidence(len(new), [f for f, _ in listed])
        total = sum(r['instances'] for r in self.rules.values())
        print(
            '%s tier=%s rules=%d instances=%d held=%d violated(new)=%d known=%d functions=%d wall=%.2fs exit=%d'
            % (self.prop, self.tier, len(self.rules), total, self.discharged, len(new), len(listed), len(self.functions), time.time() - self.t0, code)
        )
        return code

    def write_evidence(self, n_new: int, listed: list[Finding]) -> None:
        samples: list[Any] = []
        for rid, r in self.rules.items():
            for ex in r['examples'][:3]:
                samples.append({'rule': rid, **ex})
        samples.extend(self.samples[:20])
        if not samples:
            samples = [{'note': 'no rule instance was evaluated'}]
        distinct = len({(rid, ex['instance']) for rid, r in self.rules.items() for ex in r['examples']})
        ev = {
            'property_id': self.prop,
            'tier': self.tier,
            'seed': self.seed,
            'level': 'other',
            'coverage': {
                'explanation': 'static analysis of structural clauses (necessary conditions of the property) over the '
                'current working tree of /repo; no repository code is executed. Each rule instance is one obligation; '
                '"discharged" counts instances that hold.',
                'obligations': self.obligations,
                'discharged': self.discharged,
                'evaluations': max(self.obligations, 0),
                'distinct_nontrivial': max(sum(r['instances'] for r in self.rules.values()), 0),
                'rule': 'one obligation per rule instance (call site / path / table entry / function) enumerated from the resolved program',
                'rules': {rid: {k: v for k, v in r.items() if k != 'examples'} for rid, r in self.rules.items()},
                'functions_analysed': len(self.functions),
                'modules_analysed': len(self.modules),
                'functions': sorted(self.functions)[:200],
                'call_sites_examined': self.call_sites,
                'paths_examined': self.paths,
                'known_findings_reported': [f.key for f in listed],
                'analysis_errors': self.errors,
                'samples': samples,
                'exhaustive': False,
                **self.extra,
            },
            'assumptions': self.assumptions
            + [
                'mypy-inferred receiver types resolve callees (calls on Any are resolved by name and flagged)',
                'no monkey-patching / exec in src/exabgp outside vendoring',
            ],
            'wall_s': round(time.time() - self.t0, 3),
            'violations': n_new,
        }
        # VERIF_OUT: the seed / twin runners point this at a scratch directory so that runs against a modified
        # tree never overwrite the evidence of the real tree
        out = os.environ.get('VERIF_OUT', VERIF)
        os.makedirs(os.path.join(out, 'evidence'), exist_ok=True)
        path = os.path.join(out, 'evidence', self.prop + '.json')
        tmp = path + '.%d.tmp' % os.getpid()
        with open(tmp, 'w') as fh:
            json.dump(ev, fh, indent=1, default=str)
        os.replace(tmp, path)


def load_known() -> dict[str, dict]:
    if not os.path.exists(KNOWN_FILE):
        return {}
    with open(KNOWN_FILE) as fh:
        data = json.load(fh)
    out = {}
    for e in data.get('findings', []):
        out[e['key']] = e
    return out
