"""Program model: parsed modules, symbol tables, class hierarchy, resolved calls.

Nothing of the repository is imported or executed.  Everything comes from `ast` on the files
of the current working tree plus the side tables of sa.mypy_bridge.
"""

from __future__ import annotations

import ast
import os
from dataclasses import dataclass, field
from typing import Iterable, Iterator

from . import mypy_bridge
from .mypy_bridge import SRC


def src_pos(node: ast.AST) -> tuple:
    """position of a node in its source file; nodes spliced in by sa/inline.py carry it in _orig_pos (their lineno is
    the line of the call they replaced, so that ordering by line keeps meaning)"""
    p = getattr(node, '_orig_pos', None)
    if p is not None:
        return p
    return (node.lineno, node.col_offset, getattr(node, 'end_lineno', None), getattr(node, 'end_col_offset', None))  # type: ignore[attr-defined]


class AnalysisError(Exception):
    """The analysis could not be carried out (anchor vanished, unknown shape ...) -> exit 2."""


@dataclass
class FuncInfo:
    qualname: str  # exabgp.mod.Class.meth  /  exabgp.mod.func  /  exabgp.mod.Class.meth.inner
    node: ast.FunctionDef | ast.AsyncFunctionDef
    module: 'ModuleInfo'
    cls: 'ClassInfo | None'
    parent: 'FuncInfo | None' = None

    @property
    def name(self) -> str:
        return self.node.name

    @property
    def is_async(self) -> bool:
        return isinstance(self.node, ast.AsyncFunctionDef)

    @property
    def rel(self) -> str:
        return self.module.rel

    def loc(self, node: ast.AST | None = None) -> str:
        n = node if node is not None else self.node
        return '%s:%d' % (self.module.rel_repo, getattr(n, 'lineno', 0))

    def __hash__(self) -> int:
        return hash(self.qualname)

    def __eq__(self, other: object) -> bool:
        return isinstance(other, FuncInfo) and other.qualname == self.qualname


@dataclass
class ClassInfo:
    qualname: str
    node: ast.ClassDef
    module: 'ModuleInfo'
    methods: dict[str, FuncInfo] = field(default_factory=dict)
    assigns: dict[str, ast.expr] = field(default_factory=dict)  # class-level NAME = expr (last wins)
    mro: list[str] = field(default_factory=list)  # fullnames, self first (from mypy)

    @property
    def name(self) -> str:
        return self.node.name

    def loc(self) -> str:
        return '%s:%d' % (self.module.rel_repo, self.node.lineno)


@dataclass
class ModuleInfo:
    name: str  # exabgp.rib.outgoing
    rel: str  # exabgp/rib/outgoing.py  (relative to /repo/src)
    path: str
    tree: ast.Module
    source: str
    functions: dict[str, FuncInfo] = field(default_factory=dict)  # module-level
    classes: dict[str, ClassInfo] = field(default_factory=dict)
    assigns: dict[str, ast.expr] = field(default_factory=dict)
    imports: dict[str, str] = field(default_factory=dict)  # local name -> fullname

    @property
    def rel_repo(self) -> str:
        return 'src/' + self.rel

    def segment(self, node: ast.AST) -> str:
        return ast.get_source_segment(self.source, node) or ''


def _modname(rel: str) -> str:
    n = rel[:-3].replace(os.sep, '.')
    if n.endswith('.__init__'):
        n = n[: -len('.__init__')]
    return n


class Model:
    def __init__(self, need_types: bool = True) -> None:
        self.modules: dict[str, ModuleInfo] = {}  # by rel path
        self.by_name: dict[str, ModuleInfo] = {}
        self.funcs: dict[str, FuncInfo] = {}
        self.classes: dict[str, ClassInfo] = {}
        self.subclasses: dict[str, set[str]] = {}
        self._parse_all()
        self.bridge: dict | None = None
        self._calls: dict[str, dict[tuple[int, int], list]] = {}
        self._calls_end: dict[str, dict[tuple[int, int, int, int], list]] = {}
        self._types: dict[str, dict[tuple[int, int, int, int], str]] = {}
        self._func_of_node: dict[int, FuncInfo] = {}
        self._methods_by_name: dict[str, list[str]] | None = None
        self.name_resolved = 0
        if need_types:
            self.load_types()
        # helpers that did not exist on the confirmed tree are expanded in their callers (sa/inline.py)
        self.inline_report: dict = {'enabled': False}
        if not os.environ.get('VERIF_NO_INLINE'):
            from . import inline

            self.inline_report = inline.apply(self)

    # ------------------------------------------------------------------ parsing
    def _parse_all(self) -> None:
        for path in mypy_bridge.analysed_files():
            rel = os.path.relpath(path, SRC)
            with open(path, encoding='utf-8') as fh:
                src = fh.read()
            try:
                tree = ast.parse(src, filename=path)
            except SyntaxError as e:
                raise AnalysisError('cannot parse %s: %s' % (rel, e))
            mod = ModuleInfo(_modname(rel), rel, path, tree, src)
            self.modules[rel] = mod
            self.by_name[mod.name] = mod
            self._index_module(mod)

    def _index_module(self, mod: ModuleInfo) -> None:
        pkg = mod.name if mod.rel.endswith('__init__.py') else mod.name.rpartition('.')[0]
        for node in ast.walk(mod.tree):
            if isinstance(node, ast.ImportFrom):
                base = node.module or ''
                if node.level:
                    parts = pkg.split('.')
                    if node.level > 1:
                        parts = parts[: -(node.level - 1)]
                    base = '.'.join(parts + ([node.module] if node.module else []))
                for a in node.names:
                    mod.imports[a.asname or a.name] = base + '.' + a.name
            elif isinstance(node, ast.Import):
                for a in node.names:
                    mod.imports[a.asname or a.name.split('.')[0]] = a.name if a.asname else a.name.split('.')[0]

        def index_body(body: list[ast.stmt], prefix: str, cls: ClassInfo | None, parent: FuncInfo | None) -> None:
            for st in body:
                if isinstance(st, (ast.FunctionDef, ast.AsyncFunctionDef)):
                    qn = prefix + '.' + st.name
                    fi = FuncInfo(qn, st, mod, cls, parent)
                    # property setters etc. share a name: keep the first unless it is a stub overload
                    if qn in self.funcs and not _is_overload(self.funcs[qn].node):
                        qn2 = qn + '#' + str(st.lineno)
                        fi = FuncInfo(qn2, st, mod, cls, parent)
                        self.funcs[qn2] = fi
                    else:
                        self.funcs[qn] = fi
                        if cls is not None and parent is None:
                            cls.methods[st.name] = fi
                        elif cls is None and parent is None:
                            mod.functions[st.name] = fi
                    index_body(st.body, fi.qualname.split('#')[0], cls, fi)
                elif isinstance(st, ast.ClassDef):
                    qn = prefix + '.' + st.name
                    ci = ClassInfo(qn, st, mod)
                    self.classes[qn] = ci
                    if cls is None and parent is None:
                        mod.classes[st.name] = ci
                    for s2 in st.body:
                        _collect_assign(s2, ci.assigns)
                    index_body(st.body, qn, ci, None)
                elif isinstance(st, (ast.If, ast.Try, ast.With, ast.For, ast.While)):
                    for sub in _sub_bodies(st):
                        index_body(sub, prefix, cls, parent)
                elif parent is None and cls is None:
                    _collect_assign(st, mod.assigns)

        index_body(mod.tree.body, mod.name, None, None)

    # ------------------------------------------------------------------ types
    def load_types(self) -> None:
        if self.bridge is not None:
            return
        try:
            self.bridge = mypy_bridge.load()
        except Exception as e:  # mypy crashed / cannot import
            raise AnalysisError('mypy bridge failed: %r' % (e,))
        for rel, lst in self.bridge['calls'].items():
            d: dict[tuple[int, int], list] = {}
            for rec in lst:
                d.setdefault((rec[0], rec[1]), []).append(rec)
            self._calls[rel] = d
        for rel, lst in self.bridge['types'].items():
            self._types[rel] = {(r[0], r[1], r[2], r[3]): r[4] for r in lst}
        for qn, info in self.bridge['classes'].items():
            ci = self.classes.get(qn)
            if ci is not None:
                ci.mro = info['mro']
            for b in info['mro'][1:]:
                self.subclasses.setdefault(b, set()).add(qn)

    # ------------------------------------------------------------------ lookup
    def module(self, rel: str) -> ModuleInfo:
        m = self.modules.get(rel)
        if m is None:
            raise AnalysisError('anchor module vanished: ' + rel)
        return m

    def func(self, qualname: str) -> FuncInfo:
        f = self.funcs.get(qualname)
        if f is None:
            raise AnalysisError('anchor function vanished: ' + qualname)
        return f

    def cls(self, qualname: str) -> ClassInfo:
        c = self.classes.get(qualname)
        if c is None:
            raise AnalysisError('anchor class vanished: ' + qualname)
        return c

    def has_func(self, qualname: str) -> bool:
        return qualname in self.funcs

    def effective(self, cls_qn: str, member: str) -> FuncInfo | None:
        """The method `member` as seen from class `cls_qn` through the MRO."""
        ci = self.classes.get(cls_qn)
        if ci is None:
            return None
        for c in ci.mro or [cls_qn]:
            cc = self.classes.get(c)
            if cc is not None and member in cc.methods:
                return cc.methods[member]
        return None

    def effective_assign(self, cls_qn: str, name: str) -> tuple[ClassInfo, ast.expr] | None:
        ci = self.classes.get(cls_qn)
        if ci is None:
            return None
        for c in ci.mro or [cls_qn]:
            cc = self.classes.get(c)
            if cc is not None and name in cc.assigns:
                return cc, cc.assigns[name]
        return None

    def all_subclasses(self, cls_qn: str) -> set[str]:
        return set(self.subclasses.get(cls_qn, set()))

    def is_subclass(self, cls_qn: str, base_qn: str) -> bool:
        if cls_qn == base_qn:
            return True
        ci = self.classes.get(cls_qn)
        return ci is not None and base_qn in ci.mro

    # ------------------------------------------------------------------ calls / types of ast nodes
    def call_record(self, mod: ModuleInfo, call: ast.Call) -> list | None:
        ln, col, eln, ecol = src_pos(call)
        rel = getattr(call, '_orig_mod', None) or mod.rel
        recs = self._calls.get(rel, {}).get((ln, col))
        if not recs:
            # inside f-strings mypy places a call one column to the left of where ast does
            recs = [r for r in self._calls.get(rel, {}).get((ln, col - 1), []) if r[2] == eln and r[3] == ecol]
        if not recs:
            return None
        if len(recs) == 1:
            return recs[0]
        # several calls start at the same position (a.b().c()): disambiguate by end position
        for r in recs:
            if r[2] == eln and r[3] == ecol:
                return r
        return recs[0]

    def _by_receiver_type(self, mod: ModuleInfo, call: ast.Call) -> list[str] | None:
        """A call whose record says "receiver typed Any" while the receiver expression itself is typed: the inliner
        substituted an argument of the caller (typed there) for a parameter of the helper (annotated Any).  Resolved
        through the classes of the receiver, with the overrides of their subclasses."""
        if not isinstance(call.func, ast.Attribute):
            return None
        cs = [c for c in self.type_classes(mod, call.func.value) if c in self.classes]
        if not cs:
            return None
        out: set[str] = set()
        for c in cs:
            f = self.effective(c, call.func.attr)
            if f is not None:
                out.add(f.qualname)
            for sub in self.subclasses.get(c, ()):
                sc = self.classes.get(sub)
                if sc is not None and call.func.attr in sc.methods:
                    out.add(sc.methods[call.func.attr].qualname)
        return sorted(out) or None

    def callees(self, mod: ModuleInfo, call: ast.Call, by_name: bool = True) -> list[str]:
        r = self.call_record(mod, call)
        if r is None:
            return []
        if r[5] in ('any', 'untyped'):
            typed = self._by_receiver_type(mod, call)
            if typed is not None:
                return typed
        if by_name and r[5] in ('any', 'untyped') and isinstance(call.func, ast.Attribute):
            # receiver typed Any: resolve by method name over all classes of the model (flagged name-resolved)
            nm = call.func.attr
            if self._methods_by_name is None:
                idx: dict[str, list[str]] = {}
                for ci in self.classes.values():
                    for mname, f in ci.methods.items():
                        idx.setdefault(mname, []).append(f.qualname)
                self._methods_by_name = idx
            found = self._methods_by_name.get(nm, [])
            if 0 < len(found) <= 6:
                self.name_resolved += 1
                return list(found)
        return list(r[4])

    def receivers(self, mod: ModuleInfo, call: ast.Call) -> list[str]:
        r = self.call_record(mod, call)
        if r is None or len(r) < 7:
            return []
        return list(r[6])

    def type_of(self, mod: ModuleInfo, expr: ast.AST) -> str:
        tbl = self._types.get(getattr(expr, '_orig_mod', None) or mod.rel, {})
        k = src_pos(expr)
        t = tbl.get(k)
        if t is None:
            # f-string quirk: calls / subscripts start one column earlier in mypy's tree
            t = tbl.get((k[0], k[1] - 1, k[2], k[3]))
        return t if t is not None else '?'

    def type_classes(self, mod: ModuleInfo, expr: ast.AST) -> list[str]:
        """Repository/builtin class fullnames mentioned in the inferred type of expr."""
        import re

        return re.findall(r'[A-Za-z_][\w]*(?:\.[A-Za-z_]\w*)+', self.type_of(mod, expr))

    def is_instance_of(self, mod: ModuleInfo, expr: ast.AST, base_qn: str) -> bool:
        cs = [c for c in self.type_classes(mod, expr) if c != 'builtins.None']
        return bool(cs) and all(self.is_subclass(c, base_qn) for c in cs if c in self.classes) and any(c in self.classes for c in cs)

    def calls_to(self, mod: ModuleInfo, root: ast.AST, *suffixes: str) -> list[ast.Call]:
        """Calls under `root` whose resolved callee ends with one of `suffixes` (source order)."""
        out = []
        for n in walk_no_nested(root):
            if isinstance(n, ast.Call) and self.call_matches(mod, n, *suffixes):
                out.append(n)
        out.sort(key=lambda c: (c.lineno, c.col_offset))
        return out

    def call_matches(self, mod: ModuleInfo, call: ast.Call, *suffixes: str) -> bool:
        names = self.callees(mod, call)
        for nm in names:
            for s in suffixes:
                if nm == s or nm.endswith('.' + s):
                    return True
        return False

    def callees_cha(self, mod: ModuleInfo, call: ast.Call) -> list[str]:
        """Resolved callees plus overrides in subclasses of the receiver classes."""
        r = self.call_record(mod, call)
        if r is None:
            return []
        if r[5] in ('any', 'untyped'):
            typed = self._by_receiver_type(mod, call)
            if typed is not None:
                return typed
        out = set(r[4])
        recv = r[6] if len(r) > 6 else []
        if r[5] == 'method' and isinstance(call.func, ast.Attribute) and not (isinstance(call.func.value, ast.Call) and isinstance(call.func.value.func, ast.Name) and call.func.value.func.id == 'super'):
            m = call.func.attr
            for rc in recv:
                for sub in self.subclasses.get(rc, ()):
                    sc = self.classes.get(sub)
                    if sc is not None and m in sc.methods:
                        out.add(sc.methods[m].qualname)
                # a typing.Protocol has no nominal subclasses: every class that provides all its methods implements it
                impls = self.protocol_implementers(rc)
                rv = call.func.value
                table = self._registry_table_of(mod, rv) if impls else None
                if table is not None:
                    # `<cls>.<table>[key].m()`: only what a registration decorator put in the table can be there
                    members = self.registry_members(table)
                    if members is not None:
                        impls = [i for i in impls if i in members]
                for impl in impls:
                    f = self.effective(impl, m)
                    if f is not None:
                        out.add(f.qualname)
        return sorted(out)

    def _registry_table_of(self, mod: ModuleInfo, rv: ast.AST) -> str | None:
        """`X.table[k]`, or a local only ever bound to `X.table[k]` / `X.table[k].factory(...)`: the table name."""
        if isinstance(rv, ast.Subscript) and isinstance(rv.value, ast.Attribute):
            return rv.value.attr
        if isinstance(rv, ast.Name):
            f = self.enclosing_func(mod, rv)
            if f is None:
                return None
            tables: set[str | None] = set()
            for n in walk_no_nested(f.node):
                if isinstance(n, ast.Assign) and any(isinstance(t, ast.Name) and t.id == rv.id for t in n.targets):
                    v = n.value
                    if isinstance(v, ast.Call) and isinstance(v.func, ast.Attribute):
                        v = v.func.value
                    tables.add(v.value.attr if isinstance(v, ast.Subscript) and isinstance(v.value, ast.Attribute) else None)
            if len(tables) == 1:
                return next(iter(tables))
        return None

    def registry_members(self, table: str) -> set[str] | None:
        """Classes stored in the class-level dict `table` when every store is `<x>.table[k] = <parameter>` inside a
        registration function used as a class decorator; None when the table is filled some other way."""
        cache = self.__dict__.setdefault('_registry_members', {})
        if table in cache:
            return cache[table]
        regs: set[str] = set()
        ok = True
        found = False
        for f in self.funcs.values():
            for n in walk_no_nested(f.node):
                tgts = n.targets if isinstance(n, ast.Assign) else ([n.target] if isinstance(n, (ast.AugAssign, ast.AnnAssign)) else [])
                for t in tgts:
                    if isinstance(t, ast.Subscript) and isinstance(t.value, ast.Attribute) and t.value.attr == table:
                        found = True
                        params = {a.arg for a in f.node.args.args}
                        if isinstance(n, ast.Assign) and isinstance(n.value, ast.Name) and n.value.id in params:
                            regs.add((f.parent or f).qualname)
                        else:
                            ok = False
        out: set[str] | None = None
        if found and ok and regs:
            out = set()
            for qn, c in self.classes.items():
                for d in c.node.decorator_list:
                    if not isinstance(d, ast.Call):
                        continue
                    tg = set(self.callees(c.module, d))
                    if isinstance(d.func, ast.Attribute) and not tg:
                        # resolve <Class>.<method> through the imports of the module
                        head = dotted(d.func.value) or ''
                        full = c.module.imports.get(head.split('.')[0])
                        cq = (full + head[len(head.split('.')[0]):]) if full else (c.module.classes[head].qualname if head in c.module.classes else None)
                        e = self.effective(cq, d.func.attr) if cq in self.classes else None
                        if e is not None:
                            tg.add(e.qualname)
                    if tg & regs:
                        out.add(qn)
        cache[table] = out
        return out

    def protocol_implementers(self, cls_qn: str) -> list[str]:
        cache = self.__dict__.setdefault('_proto_impl', {})
        if cls_qn in cache:
            return cache[cls_qn]
        out: list[str] = []
        ci = self.classes.get(cls_qn)
        if ci is not None and any((dotted(b) or '').rsplit('.', 1)[-1] == 'Protocol' for b in ci.node.bases):
            wanted = [k for k in ci.methods if not k.startswith('__')]
            if wanted:
                for qn, c in self.classes.items():
                    if qn == cls_qn or any((dotted(b) or '').rsplit('.', 1)[-1] == 'Protocol' for b in c.node.bases):
                        continue
                    if all(self.effective(qn, k) is not None for k in wanted):
                        out.append(qn)
        cache[cls_qn] = out
        return out

    # ------------------------------------------------------------------ iteration
    def iter_funcs(self, prefix: str = '') -> Iterator[FuncInfo]:
        for qn, f in self.funcs.items():
            if qn.startswith(prefix):
                yield f

    def funcs_in(self, rel_prefix: str) -> Iterator[FuncInfo]:
        for f in self.funcs.values():
            if f.module.rel.startswith(rel_prefix):
                yield f

    def enclosing_func(self, mod: ModuleInfo, node: ast.AST) -> FuncInfo | None:
        best = None
        for f in self.funcs.values():
            if f.module is not mod:
                continue
            n = f.node
            if n.lineno <= node.lineno <= (n.end_lineno or n.lineno):  # type: ignore[attr-defined]
                if best is None or n.lineno >= best.node.lineno:
                    best = f
        return best


def _is_overload(fn: ast.AST) -> bool:
    for d in getattr(fn, 'decorator_list', []):
        if isinstance(d, ast.Name) and d.id == 'overload':
            return True
        if isinstance(d, ast.Attribute) and d.attr == 'overload':
            return True
    return False


def _collect_assign(st: ast.stmt, out: dict[str, ast.expr]) -> None:
    if isinstance(st, ast.Assign):
        for t in st.targets:
            if isinstance(t, ast.Name):
                out[t.id] = st.value
    elif isinstance(st, ast.AnnAssign) and isinstance(st.target, ast.Name) and st.value is not None:
        out[st.target.id] = st.value


def _sub_bodies(st: ast.stmt) -> Iterable[list[ast.stmt]]:
    for f in ('body', 'orelse', 'finalbody'):
        b = getattr(st, f, None)
        if b:
            yield b
    for h in getattr(st, 'handlers', []) or []:
        yield h.body


def walk_no_nested(root: ast.AST, include_root_def: bool = True) -> Iterator[ast.AST]:
    """ast.walk that does not descend into nested function/class definitions or lambdas."""
    stack = [root]
    first = True
    while stack:
        n = stack.pop()
        if not first and isinstance(n, (ast.FunctionDef, ast.AsyncFunctionDef, ast.ClassDef, ast.Lambda)):
            continue
        first = False
        yield n
        stack.extend(ast.iter_child_nodes(n))


def walk_with_lambdas(root: ast.AST) -> Iterator[ast.AST]:
    stack = [root]
    first = True
    while stack:
        n = stack.pop()
        if not first and isinstance(n, (ast.FunctionDef, ast.AsyncFunctionDef, ast.ClassDef)):
            continue
        first = False
        yield n
        stack.extend(ast.iter_child_nodes(n))


def norm(node: ast.AST | str) -> str:
    """Normalised statement/expression text (independent of formatting)."""
    if isinstance(node, str):
        return node
    try:
        return ast.unparse(node)
    except Exception:
        return ast.dump(node)


def dotted(expr: ast.AST) -> str | None:
    """`a.b.c` -> 'a.b.c' for Name/Attribute chains, else None."""
    parts = []
    while isinstance(expr, ast.Attribute):
        parts.append(expr.attr)
        expr = expr.value
    if isinstance(expr, ast.Name):
        parts.append(expr.id)
        return '.'.join(reversed(parts))
    return None
