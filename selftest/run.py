#!/venv/bin/python
"""Self-test of the checkers, both ways (DESIGN.md section 5).

  selftest/run.py [PROP ...] [--jobs N] [--kinds mutant,twin,seed,auto] [--merge]   (--merge: a partial run replaces its rows in RESULT.json)

For each variant a scratch copy of /repo/src is made under $TMPDIR, the variant is applied, the property's quick check
is run against the copy (VERIF_REPO), and the copy is removed.  /repo itself is never modified.

  mutant / break seed : one instance of a rule broken; the check must exit 1 and (when given) name the expected rule
  twin / neutral seed : behaviour unchanged; the check must exit 0 without any VIOLATION line
  auto twins          : unparse (formatter-like) and rename-locals over every module the property's rules analysed
  revert              : each `fix:` commit of /repo listed in known_findings.json re-introduced (reverse patch): must be reported again

Writes selftest/RESULT.json; exit 0 when every variant behaved as expected, 1 otherwise.
"""

from __future__ import annotations

import json
import multiprocessing
import os
import re
import shutil
import subprocess
import sys
import tempfile
import time

V = os.path.dirname(os.path.dirname(os.path.abspath(__file__)))
sys.path.insert(0, V)
REPO = os.environ.get('VERIF_REPO', '/repo')
PROPS = ['C%02d' % i for i in range(1, 21)]


def analysed_modules(prop: str) -> list[str]:
    """relative paths (src/exabgp/...) of the modules holding the functions the last clean run analysed."""
    ev = json.load(open(os.path.join(V, 'evidence', prop + '.json')))
    out = set()
    for q in ev['coverage'].get('functions', []):
        parts = q.split('.')
        for k in range(len(parts), 1, -1):
            for cand in ('/'.join(parts[:k]) + '.py', '/'.join(parts[:k]) + '/__init__.py'):
                if os.path.isfile(os.path.join(REPO, 'src', cand)):
                    out.add('src/' + cand)
                    break
            else:
                continue
            break
    return sorted(out)


def variants(props: list[str], kinds: set[str]) -> list[dict]:
    out: list[dict] = []
    if 'seed' in kinds:
        for name in sorted(os.listdir(os.path.join(V, 'seeded'))):
            p = os.path.join(V, 'seeded', name, 'patch.diff')
            if not os.path.isfile(p):
                continue
            tag = name.split('_', 1)[1]
            own = name.split('_')[0]
            if tag.startswith('N'):
                # a behaviour-preserving change must leave EVERY check silent, not only the one of its own property
                for q in props:
                    if q == own or 'cross' in kinds:
                        out.append({'prop': q, 'name': 'seed:' + name, 'kind': 'twin', 'patch': p})
            elif own in props:
                out.append({'prop': own, 'name': 'seed:' + name, 'kind': 'mutant', 'patch': p})
    if 'revert' in kinds:
        # every repaired defect, re-introduced: the rule that found it must report it again (a fixed entry suppresses nothing)
        kf = json.load(open(os.path.join(V, 'known_findings.json')))
        seen = set()
        for f in kf['findings']:
            if f.get('status') == 'fixed' and f.get('commit') and f['property'] in props and (f['commit'], f['property']) not in seen:
                seen.add((f['commit'], f['property']))
                out.append({'prop': f['property'], 'name': 'revert:%s@%s' % (f['id'].rstrip('bcde'), f['commit']), 'kind': 'mutant', 'revert': f['commit'], 'expect': f['property'] + '.'})
    if 'mutant' in kinds or 'twin' in kinds:
        from selftest.variants import VARIANTS

        for v in VARIANTS:
            if v['prop'] in props and v['kind'] in kinds:
                out.append(dict(v))
    if 'auto' in kinds:
        for p in props:
            for t in ('unparse', 'rename'):
                out.append({'prop': p, 'name': 'auto:' + t, 'kind': 'twin', 'auto': t})
    return out


def run_one(v: dict) -> dict:
    t0 = time.time()
    scratch = tempfile.mkdtemp(prefix='verif_st_')
    res = dict(prop=v['prop'], name=v['name'], kind=v['kind'])
    try:
        shutil.copytree(os.path.join(REPO, 'src', 'exabgp'), os.path.join(scratch, 'src', 'exabgp'), ignore=shutil.ignore_patterns('__pycache__'))
        changed: list[str] = []
        if 'revert' in v:
            diff = subprocess.run(['git', '-C', REPO if os.path.isdir(os.path.join(REPO, '.git')) else '/repo', 'show', '--format=', v['revert'], '--', 'src'], capture_output=True, text=True).stdout
            pf = os.path.join(scratch, 'revert.diff')
            open(pf, 'w').write(diff)
            r = subprocess.run(['patch', '-p1', '-R', '-s', '-f', '-d', scratch, '-i', pf], capture_output=True, text=True)
            if r.returncode:
                res['status'] = 'skipped'
                res['why'] = 'the repair cannot be reverted on its own any more (later changes touch the same lines)'
                return res
            changed = re.findall(r'^\+\+\+ b/(\S+)', diff, re.M)
        elif 'patch' in v:
            r = subprocess.run(['patch', '-p1', '-s', '-f', '-d', scratch, '-i', v['patch']], capture_output=True, text=True)
            if r.returncode:
                res['status'] = 'skipped'
                res['why'] = 'patch does not apply: ' + (r.stdout + r.stderr)[:200]
                return res
            changed = re.findall(r'^\+\+\+ b/(\S+)', open(v['patch']).read(), re.M)
        elif 'auto' in v:
            from selftest.transforms import rename_locals, unparse_module

            n = 0
            for rel in analysed_modules(v['prop']):
                path = os.path.join(scratch, rel)
                src = open(path).read()
                if v['auto'] == 'unparse':
                    new = unparse_module(src)
                else:
                    new, k = rename_locals(src)
                    n += k
                open(path, 'w').write(new)
                changed.append(rel)
            res['detail'] = '%d modules%s' % (len(changed), ', %d locals renamed' % n if v['auto'] == 'rename' else '')
        else:
            for ed in v['edits']:
                path = os.path.join(scratch, 'src', 'exabgp', ed['file'])
                src = open(path).read()
                k = src.count(ed['old'])
                if k != 1:
                    res['status'] = 'skipped'
                    res['why'] = '%s: anchor text occurs %d times' % (ed['file'], k)
                    return res
                open(path, 'w').write(src.replace(ed['old'], ed['new']))
                changed.append('src/exabgp/' + ed['file'])
        for rel in changed:
            try:
                compile(open(os.path.join(scratch, rel)).read(), rel, 'exec')
            except SyntaxError as e:
                res['status'] = 'skipped'
                res['why'] = 'variant does not compile: %s' % e
                return res
        env = dict(os.environ, VERIF_REPO=scratch, VERIF_OUT=os.path.join(scratch, 'out'), VERIF_CACHE=os.path.join(scratch, 'cache'))
        r = subprocess.run(['./check', v['prop']], cwd=V, env=env, capture_output=True, text=True, timeout=900)
        lines = r.stdout.splitlines()
        rules = []
        for i, l in enumerate(lines):
            if l.startswith('VIOLATION') and i + 1 < len(lines):
                m = re.search(r'(C\d\d\.R\w+) (\S+) :: (.*)', lines[i + 1])
                if m:
                    rules.append('%s %s :: %s' % (m.group(1), '.'.join(m.group(2).split('.')[-2:]), m.group(3)[:100]))
        errs = [l[:200] for l in lines if l.startswith('ANALYSIS-ERROR')]
        res['exit'] = r.returncode
        res['reports'] = rules
        res['errors'] = errs[:3]
        if v['kind'] == 'mutant':
            exp = v.get('expect')
            hit = r.returncode == 1 and rules and (not exp or any(x.startswith(exp) for x in rules))
            res['status'] = 'killed' if hit else ('refused' if r.returncode == 2 else 'survived')
        else:
            res['status'] = 'silent' if (r.returncode == 0 and not rules) else ('refused' if r.returncode == 2 else 'alarmed')
    except Exception as e:  # noqa: BLE001
        res['status'] = 'error'
        res['why'] = repr(e)[:300]
    finally:
        shutil.rmtree(scratch, ignore_errors=True)
        res['wall_s'] = round(time.time() - t0, 1)
    return res


def main(argv: list[str]) -> int:
    jobs = 14
    kinds = {'mutant', 'twin', 'seed', 'auto', 'cross', 'revert'}
    props = []
    merge = '--merge' in argv
    argv = [a for a in argv if a != '--merge']
    it = iter(argv)
    for a in it:
        if a == '--jobs':
            jobs = int(next(it))
        elif a == '--kinds':
            kinds = set(next(it).split(','))
        else:
            props.append(a.upper())
    props = props or PROPS
    vs = variants(props, kinds)
    t0 = time.time()
    with multiprocessing.Pool(jobs) as pool:
        rows = []
        for r in pool.imap_unordered(run_one, vs):
            rows.append(r)
            print('%-4s %-28s %-7s %-9s %5.1fs %s' % (r['prop'], r['name'], r['kind'], r['status'], r.get('wall_s', 0), '; '.join(r.get('reports', [])[:2]) or r.get('why', '') or '; '.join(r.get('errors', []))), flush=True)
    this_run = list(rows)
    if merge:
        # a partial re-run replaces the rows it produced in the last full result
        prev = json.load(open(os.path.join(V, 'selftest', 'RESULT.json')))
        done = {(r['prop'], r['name']) for r in rows}
        rows = rows + [r for r in prev['rows'] if (r['prop'], r['name']) not in done]
    rows.sort(key=lambda r: (r['prop'], r['name']))
    tally: dict[str, dict] = {}
    for r in rows:
        t = tally.setdefault(r['prop'], {'mutants': 0, 'killed': 0, 'survivors': [], 'twins': 0, 'silent': 0, 'alarmed': [], 'skipped': []})
        if r['status'] in ('skipped', 'error'):
            t['skipped'].append(r['name'])
        elif r['kind'] == 'mutant':
            t['mutants'] += 1
            if r['status'] == 'killed':
                t['killed'] += 1
            else:
                t['survivors'].append(r['name'] + ('(refused)' if r['status'] == 'refused' else ''))
        else:
            t['twins'] += 1
            if r['status'] == 'silent':
                t['silent'] += 1
            else:
                t['alarmed'].append(r['name'] + ('(refused)' if r['status'] == 'refused' else ''))
    head = subprocess.run(['git', '-C', '/repo', 'rev-parse', '--short', 'HEAD'], capture_output=True, text=True).stdout.strip()
    full = set(props) == set(PROPS) and kinds >= {'mutant', 'twin', 'seed', 'auto'}
    if full or merge:
        json.dump({'repo_head': head, 'wall_s': round(time.time() - t0, 1), 'tally': tally, 'rows': rows}, open(os.path.join(V, 'selftest', 'RESULT.json'), 'w'), indent=1)
    rows = this_run
    bad = [r for r in rows if r['status'] in ('survived', 'alarmed', 'refused', 'error')]
    print('variants=%d killed=%d silent=%d unexpected=%d skipped=%d wall=%.0fs' % (len(rows), sum(r['status'] == 'killed' for r in rows), sum(r['status'] == 'silent' for r in rows), len(bad), sum(r['status'] == 'skipped' for r in rows), time.time() - t0))
    return 1 if bad else 0


if __name__ == '__main__':
    sys.exit(main(sys.argv[1:]))
