"""Behaviour-preserving source transformations used as automatic twins (the false-alarm side of the self-test).

They work on source text with `ast` only and never import repository code."""

from __future__ import annotations

import ast
import builtins


def unparse_module(src: str) -> str:
    """What a formatter does, and more: comments gone, parentheses, quotes and line breaks normalised."""
    return ast.unparse(ast.parse(src)) + '\n'


class _Scope(ast.NodeVisitor):
    """Names bound / read in ONE function scope; nested scopes are recorded separately."""

    def __init__(self, fn: ast.AST) -> None:
        self.fn = fn
        self.stores: set[str] = set()
        self.unsafe: set[str] = set()
        self.nested_reads: set[str] = set()
        self.dynamic = False
        args = fn.args  # type: ignore[attr-defined]
        self.params = {a.arg for a in args.args + args.posonlyargs + args.kwonlyargs}
        if args.vararg:
            self.params.add(args.vararg.arg)
        if args.kwarg:
            self.params.add(args.kwarg.arg)
        for st in fn.body:  # type: ignore[attr-defined]
            self.visit(st)

    def _nested(self, node: ast.AST) -> None:
        for n in ast.walk(node):
            if isinstance(n, ast.Name):
                self.nested_reads.add(n.id)
            elif isinstance(n, (ast.Global, ast.Nonlocal)):
                self.unsafe.update(n.names)
            elif isinstance(n, ast.arg):
                self.nested_reads.add(n.arg)

    def visit_FunctionDef(self, node: ast.FunctionDef) -> None:
        self.unsafe.add(node.name)
        self._nested(node)

    visit_AsyncFunctionDef = visit_FunctionDef  # type: ignore[assignment]

    def visit_ClassDef(self, node: ast.ClassDef) -> None:
        self.unsafe.add(node.name)
        self._nested(node)

    def visit_Lambda(self, node: ast.Lambda) -> None:
        self._nested(node)

    def _comp(self, node: ast.AST) -> None:
        for g in node.generators:  # type: ignore[attr-defined]
            for n in ast.walk(g.target):
                if isinstance(n, ast.Name):
                    self.unsafe.add(n.id)
        self._nested(node)

    visit_ListComp = visit_SetComp = visit_DictComp = visit_GeneratorExp = _comp  # type: ignore[assignment]

    def visit_Global(self, node: ast.Global) -> None:
        self.unsafe.update(node.names)

    visit_Nonlocal = visit_Global  # type: ignore[assignment]

    def visit_ExceptHandler(self, node: ast.ExceptHandler) -> None:
        if node.name:
            self.unsafe.add(node.name)
        self.generic_visit(node)

    def visit_alias(self, node: ast.alias) -> None:
        self.unsafe.add((node.asname or node.name).split('.')[0])

    def visit_Name(self, node: ast.Name) -> None:
        if isinstance(node.ctx, (ast.Store, ast.Del)):
            self.stores.add(node.id)
        if node.id in ('locals', 'vars', 'eval', 'exec'):
            self.dynamic = True

    def visit_MatchAs(self, node: ast.AST) -> None:
        self.dynamic = True


class _Rename(ast.NodeTransformer):
    def __init__(self, mapping: dict[str, str]) -> None:
        self.mapping = mapping

    def visit_Name(self, node: ast.Name) -> ast.AST:
        if node.id in self.mapping:
            return ast.copy_location(ast.Name(id=self.mapping[node.id], ctx=node.ctx), node)
        return node

    # nested scopes were excluded from the candidate set (a name read there is never renamed)
    def visit_FunctionDef(self, node: ast.FunctionDef) -> ast.AST:
        return node

    visit_AsyncFunctionDef = visit_FunctionDef  # type: ignore[assignment]

    def visit_Lambda(self, node: ast.Lambda) -> ast.AST:
        return node

    def visit_ClassDef(self, node: ast.ClassDef) -> ast.AST:
        return node

    def _comp(self, node: ast.AST) -> ast.AST:
        return node

    visit_ListComp = visit_SetComp = visit_DictComp = visit_GeneratorExp = _comp  # type: ignore[assignment]


def rename_locals(src: str, suffix: str = '_rn') -> tuple[str, int]:
    """Rename every plain local variable (not a parameter, not read by a nested scope, not global/nonlocal) of every
    function of the module.  Returns the new source and the number of renamed variables."""
    tree = ast.parse(src)
    module_names = {n.id for n in ast.walk(tree) if isinstance(n, ast.Name)} | set(dir(builtins))
    count = 0

    def do(fn: ast.AST) -> None:
        nonlocal count
        sc = _Scope(fn)
        if not sc.dynamic:
            cand = sc.stores - sc.params - sc.unsafe - sc.nested_reads
            mapping = {}
            for nm in sorted(cand):
                if nm.startswith('__') or nm == '_':
                    continue
                new = nm + suffix
                if new in module_names:
                    continue
                mapping[nm] = new
            if mapping:
                count += len(mapping)
                rn = _Rename(mapping)
                fn.body = [rn.visit(st) for st in fn.body]  # type: ignore[attr-defined]
        # nested functions (API callbacks) get their own pass
        for st in ast.walk(fn):
            if st is not fn and isinstance(st, (ast.FunctionDef, ast.AsyncFunctionDef)) and getattr(st, '_done', None) is None:
                st._done = True  # type: ignore[attr-defined]
                do(st)

    for node in ast.walk(tree):
        if isinstance(node, (ast.FunctionDef, ast.AsyncFunctionDef)) and getattr(node, '_done', None) is None:
            node._done = True  # type: ignore[attr-defined]
            do(node)
    ast.fix_missing_locations(tree)
    return ast.unparse(tree) + '\n', count
