"""Hand-written mutants (one rule instance broken) and twins (behaviour unchanged) - see selftest/run.py.

Each edit replaces a text that must occur exactly once in the file; a variant whose anchor text has gone is 'skipped'."""

VARIANTS: list[dict] = []


def _v(prop: str, name: str, kind: str, file: str, old: str, new: str, expect: str | None = None) -> None:
    VARIANTS.append({'prop': prop, 'name': name, 'kind': kind, 'expect': expect, 'edits': [{'file': file, 'old': old, 'new': new}]})
