#!/venv/bin/python
"""Apply every stored seed (/verif/seeded/<name>/patch.diff) to /repo, run the property's quick check into a scratch
output directory, undo the change, and write seeded/DETECTION.json (+ a markdown table on stdout).

kind 'break'  : the check must report a VIOLATION      (seeds named Cxx_A .. Cxx_M)
kind 'neutral': the check must stay silent and exit 0   (seeds named Cxx_N1 ..; behaviour-preserving maintenance)
"""
import json
import os
import re
import subprocess
import sys
import tempfile

V = os.path.dirname(os.path.dirname(os.path.abspath(__file__)))
REPO = '/repo'


def sh(cmd, **kw):
    return subprocess.run(cmd, shell=True, capture_output=True, text=True, **kw)


def main():
    only = set(sys.argv[1:])
    if sh('git status --porcelain --untracked-files=no', cwd=REPO).stdout.strip():
        print('/repo is dirty')
        return 2
    hist = json.load(open(os.path.join(V, 'seeded', 'HISTORY.json')))
    rows = []
    scratch = tempfile.mkdtemp(prefix='verif_seed_')
    bad = 0
    for name in sorted(os.listdir(os.path.join(V, 'seeded'))):
        d = os.path.join(V, 'seeded', name)
        patch = os.path.join(d, 'patch.diff')
        if not os.path.isfile(patch) or (only and name not in only and name.split('_')[0] not in only):
            continue
        prop, tag = name.split('_', 1)
        kind = 'neutral' if tag.startswith('N') else 'break'
        if sh('git apply --check ' + patch, cwd=REPO).returncode:
            rows.append({'seed': name, 'kind': kind, 'result': 'patch does not apply'})
            bad += 1
            continue
        sh('git apply ' + patch, cwd=REPO)
        try:
            r = sh('./check %s' % prop, cwd=V, env=dict(os.environ, VERIF_OUT=scratch))
        finally:
            sh('git checkout -- .', cwd=REPO)
        lines = r.stdout.splitlines()
        rules = []
        for i, l in enumerate(lines):
            if l.startswith('VIOLATION') and i + 1 < len(lines):
                m = re.search(r'(C\d\d\.R\w+) (\S+) :: (.*)', lines[i + 1])
                if m:
                    rules.append({'rule': m.group(1), 'construct': m.group(2).split('.')[-2] + '.' + m.group(2).split('.')[-1], 'what': m.group(3)[:120]})
        ok = (r.returncode == 1 and rules) if kind == 'break' else (r.returncode == 0 and not rules)
        bad += 0 if ok else 1
        title = ''
        notes = os.path.join(d, 'notes.md')
        if os.path.exists(notes):
            title = open(notes).readline().strip().lstrip('# ').strip()
        rows.append({'seed': name, 'kind': kind, 'exit': r.returncode, 'as_expected': bool(ok), 'title': title, 'reports': rules, 'history': hist.get(name, '')})
        print('%-8s %-7s exit=%d %s %s' % (name, kind, r.returncode, 'OK ' if ok else 'UNEXPECTED', '; '.join(x['rule'] for x in rules)), flush=True)
    sh('rm -rf ' + scratch)
    if not only:
        json.dump({'repo_head': sh('git rev-parse --short HEAD', cwd=REPO).stdout.strip(), 'rows': rows}, open(os.path.join(V, 'seeded', 'DETECTION.json'), 'w'), indent=1)
    return 1 if bad else 0


if __name__ == '__main__':
    sys.exit(main())
