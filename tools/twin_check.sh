#!/bin/bash
# usage: tools/twin_check.sh <twin root> [prop ...]  run checks against a transformed copy of the tree (VERIF_REPO), logs in /tmp/twin_out
root=$1; shift
mkdir -p /tmp/twin_out
for p in ${@:-C01 C02 C03 C04 C05 C06 C07 C08 C09 C10 C11 C12 C13 C14 C15 C16 C17 C18 C19 C20}; do
  (cd /verif && VERIF_REPO=$root VERIF_OUT=/tmp/twin_out ./check $p > /tmp/twin_out/$p.log 2>&1; echo "$p exit=$? viol=$(grep -c '^VIOLATION' /tmp/twin_out/$p.log) err=$(grep -c '^ANALYSIS-ERROR' /tmp/twin_out/$p.log)")
done
