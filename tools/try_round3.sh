#!/bin/bash
# usage: tools/try_round3.sh Cxx   run /tmp/seed3/Cxx/{E,F} against Cxx and N3 against every check
p=$1
for x in E F; do [ -f /tmp/seed3/$p/$x/patch.diff ] && /verif/tools/run_patch.sh $p /tmp/seed3/$p/$x/patch.diff; done
if [ -f /tmp/seed3/$p/N3/patch.diff ]; then
  for q in C01 C02 C03 C04 C05 C06 C07 C08 C09 C10 C11 C12 C13 C14 C15 C16 C17 C18 C19 C20; do /verif/tools/run_patch.sh $q /tmp/seed3/$p/N3/patch.diff; done | grep -v "^\[0\]"
  echo "N3 cross done"
fi
