#!/bin/bash
# usage: tools/confirm_round6.sh Cxx   confirm /tmp/seed6/Cxx/{G,N4,N5} into /verif/seeded
p=$1
cd /verif
[ -f /tmp/seed6/$p/H/patch.diff ] && tools/confirm_seed.py /tmp/seed6/$p/H $p ${p}_H
demos=$(ls /verif/seeded/${p}_[A-M]/demo.py 2>/dev/null | tr '\n' ' ')
for x in N6 N7; do [ -f /tmp/seed6/$p/$x/patch.diff ] && tools/confirm_seed.py /tmp/seed6/$p/$x $p ${p}_$x --neutral $demos; done
git -C /repo worktree remove --force /tmp/wt6_$p 2>/dev/null
rm -f /repo/compat_corpus.py
