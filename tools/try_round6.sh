#!/bin/bash
# usage: tools/try_round4.sh Cxx ...   G against its own check, N4 / N5 against all 20 checks (parallel, scratch copies)
jobs=/tmp/r4jobs.$$.txt; : > $jobs
for p in "$@"; do
  [ -f /tmp/seed6/$p/H/patch.diff ] && echo "$p /tmp/seed6/$p/H/patch.diff" >> $jobs
  for n in N6 N7; do
    [ -f /tmp/seed6/$p/$n/patch.diff ] || continue
    for q in C01 C02 C03 C04 C05 C06 C07 C08 C09 C10 C11 C12 C13 C14 C15 C16 C17 C18 C19 C20; do echo "$q /tmp/seed6/$p/$n/patch.diff" >> $jobs; done
  done
done
cat $jobs | xargs -P 12 -L 1 /verif/tools/run_patch.sh | grep -v "^\[0\] C.. /tmp/seed6/C../N" 
rm -f $jobs
