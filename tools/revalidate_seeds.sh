#!/bin/bash
# usage: tools/revalidate_seeds.sh [names...]   re-run every seed's demonstration against the current /repo HEAD:
#   breaking seeds: the patch applies, demo exits 0 without it and non-zero with it;  neutral seeds: the patch applies.
cd /verif
wt=/tmp/reval_wt
git -C /repo worktree remove --force $wt 2>/dev/null
git -C /repo worktree add -q --detach $wt HEAD || exit 2
names=${@:-$(ls seeded | grep -v json)}
for n in $names; do
  d=seeded/$n
  [ -f $d/patch.diff ] || continue
  git -C $wt checkout -q -- . && git -C $wt clean -fdq
  if ! git -C $wt apply --check $PWD/$d/patch.diff 2>/dev/null; then echo "$n PATCH-DOES-NOT-APPLY"; continue; fi
  if [ -f $d/demo.py ]; then
    sed "s#/tmp/wt[0-9]*_C[0-9]*#$wt#g; s#/tmp/confirm_wt_[A-Za-z0-9_]*#$wt#g" $d/demo.py > $wt/_demo.py
    for extra in $d/*.py; do b=$(basename $extra); [ "$b" != demo.py ] && cp $extra $wt/$b; done
    (cd $wt && PYTHONPATH=$wt/src PYTHONDONTWRITEBYTECODE=1 timeout 600 /venv/bin/python _demo.py >/dev/null 2>&1); clean=$?
    git -C $wt apply $PWD/$d/patch.diff
    (cd $wt && PYTHONPATH=$wt/src PYTHONDONTWRITEBYTECODE=1 timeout 600 /venv/bin/python _demo.py >/dev/null 2>&1); broken=$?
    if [ $clean -eq 0 ] && [ $broken -ne 0 ]; then echo "$n ok"; else echo "$n DEMO clean=$clean patched=$broken"; fi
  else
    echo "$n ok (neutral, applies)"
  fi
done
git -C /repo worktree remove --force $wt
