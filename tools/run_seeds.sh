#!/bin/bash
# usage: tools/run_seeds.sh <seed root> [prop ...]   apply each seed patch to /repo, run the property's quick check, revert
root=${1:-/verif/seeded}; shift
cd /repo || exit 2
if [ -n "$(git status --porcelain --untracked-files=no)" ]; then echo "/repo is dirty"; exit 2; fi
for d in $(ls -d $root/C*/ 2>/dev/null); do
  p=$(basename $d); p=${p%%_*}
  if [ $# -gt 0 ] && ! echo "$@" | grep -qw "$p"; then continue; fi
  for pd in $(find $d -name patch.diff | sort); do
    if git apply --check $pd 2>/dev/null; then
      git apply $pd
      out=$(cd /verif && VERIF_OUT=/tmp/verif_seed_out ./check $p 2>&1); code=$?
      git checkout -- .
      echo "[$code] $pd :: $(echo "$out" | grep -c '^VIOLATION') violation(s) :: $(echo "$out" | grep -A1 '^VIOLATION' | grep -v '^VIOLATION' | grep -v '^--' | head -2 | cut -c1-200 | tr '\n' '|')"
    else
      echo "[skip] $pd does not apply"
    fi
  done
done
