#!/venv/bin/python
"""Confirm a seeded change in a scratch worktree and store it under /verif/seeded/<name>/.

usage: tools/confirm_seed.py <src dir with patch.diff demo.py notes.md> <property> <name> [--no-tests]
       tools/confirm_seed.py <src dir with patch.diff notes.md> <property> <name> --neutral <demo.py> [<demo.py> ...]
           a behaviour-preserving change: the test suite passes with it and every given demonstration of a breakage of
           the same property (written for other seeds) still exits 0 with it

Checks (all in a scratch worktree of /repo HEAD under /tmp, removed afterwards):
  1. the patch applies;  2. the demo exits non-zero with the change;  3. the demo exits 0 without it;
  4. the repository's test suite still passes with the change (same failures as the clean tree: the one test needing `uv`).
"""
import json
import os
import re
import shutil
import subprocess
import sys
import time

src, prop, name = sys.argv[1:4]
run_tests = '--no-tests' not in sys.argv
neutral = '--neutral' in sys.argv
neutral_demos = sys.argv[sys.argv.index('--neutral') + 1 :] if neutral else []
wt = '/tmp/confirm_wt_%s' % name
out = '/verif/seeded/%s' % name


def sh(cmd, **kw):
    return subprocess.run(cmd, shell=True, capture_output=True, text=True, **kw)


sh('git -C /repo worktree remove --force %s' % wt)
r = sh('git -C /repo worktree add -q --detach %s HEAD' % wt)
if r.returncode:
    print('worktree failed', r.stderr)
    sys.exit(2)
meta = {'property': prop, 'name': name, 'repo_head': sh('git -C /repo log --format=%h -1').stdout.strip(), 'confirmed_at': time.strftime('%Y-%m-%dT%H:%M:%SZ', time.gmtime())}
try:
    patch = os.path.join(src, 'patch.diff')
    r = sh('git -C %s apply --check %s' % (wt, patch))
    if r.returncode:
        print('patch does not apply:', r.stderr[:300])
        sys.exit(3)
    env = dict(os.environ, PYTHONPATH=wt + '/src', PYTHONDONTWRITEBYTECODE='1')
    if neutral:
        sh('git -C %s apply %s' % (wt, patch))
        results = []
        for i, dm in enumerate(neutral_demos):
            local = os.path.join(wt, '_demo%d.py' % i)
            open(local, 'w').write(re.sub(r'/tmp/wt\d*_C\d+', wt, open(dm).read()))
            for hname in os.listdir(os.path.dirname(dm)):
                if hname.endswith('.py') and hname != 'demo.py':
                    open(os.path.join(wt, hname), 'w').write(re.sub(r'/tmp/wt\d*_C\d+', wt, open(os.path.join(os.path.dirname(dm), hname)).read()))
            r = sh('cd %s && timeout 300 /venv/bin/python _demo%d.py' % (wt, i), env=env)
            results.append({'demo': dm, 'exit': r.returncode})
        t0 = time.time()
        rt = sh('cd %s && timeout 1500 /venv/bin/python -m pytest -q -p no:cacheprovider -n 8 tests 2>&1 | tail -8' % wt, env=env)
        mp = re.search(r'(\d+) passed', rt.stdout)
        fails = re.findall(r'FAILED (\S+)', rt.stdout)
        unexpected = [f for f in fails if 'test_a_clean_tree_exits_zero' not in f and 'test_util.py::TestDNS' not in f and 'TestRegistryPerformance' not in f]
        tests = {'passed': int(mp.group(1)) if mp else 0, 'failed_ids': fails, 'unexpected_failures': unexpected, 'wall_s': round(time.time() - t0)}
        ok = all(x['exit'] == 0 for x in results) and not unexpected and tests['passed'] > 5000
        meta.update({'kind': 'neutral', 'demos_with_change': results, 'tests_with_change': tests, 'confirmed': ok})
        notes = os.path.join(src, 'notes.md')
        if os.path.exists(notes):
            meta['notes_excerpt'] = open(notes).read()[:1500]
        print(name, 'confirmed neutral' if ok else 'NOT CONFIRMED', results, tests)
        if ok:
            os.makedirs(out, exist_ok=True)
            shutil.copy(patch, os.path.join(out, 'patch.diff'))
            if os.path.exists(notes):
                shutil.copy(notes, os.path.join(out, 'notes.md'))
            json.dump(meta, open(os.path.join(out, 'meta.json'), 'w'), indent=1)
        sys.exit(0 if ok else 4)
    demo = os.path.join(src, 'demo.py')
    demo_txt = open(demo).read()
    # demos were written against /tmp/wt_Cxx: point them at the confirmation worktree
    demo_local = os.path.join(wt, '_demo.py')
    open(demo_local, 'w').write(re.sub(r'/tmp/wt\d*_C\d+', wt, demo_txt))
    # helper modules the demonstration imports (a fake peer, say) sit next to it
    helpers = [f for f in os.listdir(src) if f.endswith('.py') and f != 'demo.py']
    for hname in helpers:
        open(os.path.join(wt, hname), 'w').write(re.sub(r'/tmp/wt\d*_C\d+', wt, open(os.path.join(src, hname)).read()))
    sh('git -C %s apply %s' % (wt, patch))
    r1 = sh('cd %s && timeout 300 /venv/bin/python _demo.py' % wt, env=env)
    meta['demo_with_change'] = {'exit': r1.returncode, 'tail': (r1.stdout + r1.stderr)[-600:]}
    tests = None
    if run_tests:
        t0 = time.time()
        rt = sh('cd %s && timeout 1500 /venv/bin/python -m pytest -q -p no:cacheprovider -n 8 tests 2>&1 | tail -8' % wt, env=env)
        tail = rt.stdout
        m = re.search(r'(\d+) failed', tail)
        failed = int(m.group(1)) if m else 0
        mp = re.search(r'(\d+) passed', tail)
        fails = re.findall(r'FAILED (\S+)', tail)
        unexpected = [f for f in fails if 'test_a_clean_tree_exits_zero' not in f and 'test_util.py::TestDNS' not in f and 'TestRegistryPerformance' not in f]
        tests = {'passed': int(mp.group(1)) if mp else 0, 'failed': failed, 'failed_ids': fails, 'unexpected_failures': unexpected, 'wall_s': round(time.time() - t0)}
        meta['tests_with_change'] = tests
    sh('git -C %s apply -R %s' % (wt, patch))
    r0 = sh('cd %s && timeout 300 /venv/bin/python _demo.py' % wt, env=env)
    meta['demo_without_change'] = {'exit': r0.returncode, 'tail': (r0.stdout + r0.stderr)[-300:]}
    ok = r1.returncode != 0 and r0.returncode == 0 and (tests is None or (not tests['unexpected_failures'] and tests['passed'] > 5000))
    meta['confirmed'] = ok
    notes = os.path.join(src, 'notes.md')
    meta['needs_to_manifest'] = ''
    if os.path.exists(notes):
        txt = open(notes).read()
        meta['notes_excerpt'] = txt[:1500]
    meta['ran'] = [
        'git worktree add --detach %s HEAD; git apply patch.diff' % wt,
        'PYTHONPATH=%s/src /venv/bin/python demo.py  -> exit %d (with change)' % (wt, r1.returncode),
        'PYTHONPATH=%s/src /venv/bin/python -m pytest -q -p no:cacheprovider -n 8 tests -> %s' % (wt, tests),
        'git apply -R patch.diff; demo.py -> exit %d (without change)' % r0.returncode,
    ]
    print(name, 'confirmed' if ok else 'NOT CONFIRMED', 'demo with/without = %d/%d' % (r1.returncode, r0.returncode), 'tests', tests)
    if ok:
        os.makedirs(out, exist_ok=True)
        shutil.copy(patch, os.path.join(out, 'patch.diff'))
        shutil.copy(demo, os.path.join(out, 'demo.py'))
        for hname in helpers:
            shutil.copy(os.path.join(src, hname), os.path.join(out, hname))
        if os.path.exists(notes):
            shutil.copy(notes, os.path.join(out, 'notes.md'))
        json.dump(meta, open(os.path.join(out, 'meta.json'), 'w'), indent=1)
    else:
        json.dump(meta, open('/tmp/seed_out/%s.unconfirmed.json' % name, 'w'), indent=1)
finally:
    sh('git -C /repo worktree remove --force %s' % wt)
