#!/bin/bash
# usage: tools/confirm_round4.sh Cxx   confirm /tmp/seed4/Cxx/{G,N4,N5} into /verif/seeded
p=$1
cd /verif
[ -f /tmp/seed4/$p/G/patch.diff ] && tools/confirm_seed.py /tmp/seed4/$p/G $p ${p}_G
demos=$(ls /verif/seeded/${p}_[A-M]/demo.py 2>/dev/null | tr '\n' ' ')
for x in N4 N5; do [ -f /tmp/seed4/$p/$x/patch.diff ] && tools/confirm_seed.py /tmp/seed4/$p/$x $p ${p}_$x --neutral $demos; done
git -C /repo worktree remove --force /tmp/wt4_$p 2>/dev/null
rm -f /repo/compat_corpus.py
