#!/bin/bash
# usage: tools/confirm_round2.sh Cxx   confirm /tmp/seed2/Cxx/{C,D,N1,N2} into /verif/seeded
p=$1
cd /verif
for x in C D; do [ -f /tmp/seed2/$p/$x/patch.diff ] && tools/confirm_seed.py /tmp/seed2/$p/$x $p ${p}_$x; done
demos=$(ls /verif/seeded/${p}_[A-M]/demo.py 2>/dev/null | tr '\n' ' ')
for x in N1 N2; do [ -f /tmp/seed2/$p/$x/patch.diff ] && tools/confirm_seed.py /tmp/seed2/$p/$x $p ${p}_$x --neutral $demos; done
git -C /repo worktree remove --force /tmp/wt2_$p 2>/dev/null
