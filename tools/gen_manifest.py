#!/venv/bin/python
"""Regenerate MANIFEST.json from the table below (run from /verif)."""
import json, os, sys
sys.path.insert(0, os.path.dirname(os.path.dirname(os.path.abspath(__file__))))
from sa.claims import CLAIMS, NOT_APPLICABLE

BASE = json.load(open('/root/.vp/BASELINE.json'))['cmd'].replace('--junitxml=<file>', '--junitxml=/tmp/exabgp-baseline-off.junit.xml')
checks = []
for pid, c in sorted(CLAIMS.items()):
    checks.append({
        'property_id': pid,
        'quick_cmd': './check %s --tier quick' % pid,
        'thorough_cmd': './check %s --tier thorough' % pid,
        'evidence_file': '/verif/evidence/%s.json' % pid,
        'replay_cmd_template': './check %s --replay {path}' % pid,
        'engine': 'sa',
        'level_claimed': {'category': 'other', 'text': c['text'], 'design_ref': 'DESIGN.md section 3 / ' + pid},
        'level_note': c['note'],
        'technique': c['technique'],
    })
m = {
    'version': 1,
    'setup_cmd': '/venv/bin/python -m compileall -q sa >/dev/null 2>&1; ./check --warm',
    'hooks': {
        'guard': 'EXABGP_VERIF',
        'enable': 'none needed: the checks are static and read /repo/src without instrumentation (guard name unused)',
        'baseline_off_cmd': BASE,
        'source_commits': [],
        'add_only': True,
    },
    'engines': [{
        'name': 'sa',
        'path': '/verif/sa',
        'serves_properties': sorted(CLAIMS),
        'kind_free_text': 'repository-specific static analysis: ast program model + mypy-resolved callees and receiver types, per-function CFG with dominators, backward slices, explicit exception flow, registry/constant folding, sibling comparison',
    }],
    'checks': checks,
    'not_applicable': [{'property_id': k, 'reason': v} for k, v in sorted(NOT_APPLICABLE.items())],
    'notes': 'Static analysis only (see DESIGN.md). Each check decides structural clauses that are necessary conditions of its property; the value/timing/history part of every property is explicitly not decided (DESIGN.md section 7). Exit 2 + ANALYSIS-ERROR means the analysis itself could not be carried out.',
}
json.dump(m, open('MANIFEST.json', 'w'), indent=1)
print('checks', len(checks), 'n/a', len(NOT_APPLICABLE))
