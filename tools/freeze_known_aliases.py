#!/venv/bin/python
"""Freeze the list of locals that merely name a constant on the confirmed tree (sa/known_aliases.txt).  A local of this
kind that is NOT in the list appeared later (a constant hoisted into a local) and is replaced by the constant before the
rules run (sa/inline.py: propagate_aliases)."""
import ast
import os
import sys

sys.path.insert(0, os.path.dirname(os.path.dirname(os.path.abspath(__file__))))
os.environ['VERIF_NO_INLINE'] = '1'
from sa import inline  # noqa: E402
from sa.model import Model  # noqa: E402

m = Model(need_types=False)
al = sorted({'%s\t%s' % (q.split('#')[0], nm) for q, fi in m.funcs.items() if not isinstance(fi.node, ast.Lambda) for nm in inline.constant_aliases(fi.node)})
with open(inline.ALIASES_FILE, 'w') as fh:
    fh.write('# locals naming a constant on the confirmed tree (function<TAB>local); later ones are replaced by the constant\n')
    fh.write('\n'.join(al) + '\n')
print(len(al), 'constant aliases')

tu = inline.tuple_assigns(m)
with open(inline.TUPLES_FILE, 'w') as fh:
    fh.write('# tuple assignments `a, b = x, y` of the confirmed tree (function<TAB>statement); later ones are written out one by one\n')
    fh.write('\n'.join(tu) + '\n')
print(len(tu), 'tuple assignments')
