#!/venv/bin/python
"""Regenerate the generated tables of DESIGN.md (between <!-- BEGIN x --> / <!-- END x --> markers) from
known_findings.json, seeded/DETECTION.json and selftest/RESULT.json."""
import json
import os
import re

V = os.path.dirname(os.path.dirname(os.path.abspath(__file__)))


def findings():
    d = json.load(open(os.path.join(V, 'known_findings.json')))
    out = ['| id | property | status | /repo commit | rule key (rule, construct) | what failed against the real code | demo |', '|---|---|---|---|---|---|---|']
    for f in d['findings']:
        key = f['key'].split('|')
        what = re.sub(r'^fixed: property=\S+ \S+ ', '', f['what'])
        if f['status'] == 'known':
            what += ' — **not repaired:** ' + f.get('why_not_fixed', '')
        out.append('| %s | %s | %s | %s | %s `%s` | %s | `%s` |' % (f['id'], f['property'], f['status'], f.get('commit', ''), key[0], key[1].split('.', 2)[-1] if key[1].startswith('exabgp.') else key[1], what.replace('|', '\\|'), f.get('demo', '')))
    return '\n'.join(out)


def seeds():
    p = os.path.join(V, 'seeded', 'DETECTION.json')
    if not os.path.exists(p):
        return '(not run yet)'
    d = json.load(open(p))
    out = ['Run against /repo HEAD %s by `tools/seed_table.py`.' % d['repo_head'], '', '| seed | kind | what was changed | reported by (rule: construct) | how it fared |', '|---|---|---|---|---|']
    for r in d['rows']:
        rep = '; '.join('%s: `%s`' % (x['rule'], x['construct']) for x in r.get('reports', [])[:3]) or ('silent, exit %s' % r.get('exit'))
        if not r.get('as_expected', False):
            rep = '**UNEXPECTED** ' + rep
        out.append('| %s | %s | %s | %s | %s |' % (r['seed'], r['kind'], re.sub(r'^C\d\d\s*/\s*\w+\s*[-—–:]+\s*', '', r.get('title', '')).replace('|', '\\|'), rep.replace('|', '\\|'), r.get('history', '').replace('|', '\\|')))
    return '\n'.join(out)


def selftest():
    p = os.path.join(V, 'selftest', 'RESULT.json')
    if not os.path.exists(p):
        return '(not run yet)'
    d = json.load(open(p))
    out = ['Last run: /repo HEAD %s, %d variants, %.0f s.' % (d['repo_head'], len(d['rows']), d['wall_s']), '', '| property | mutants applied | killed | survived | twins applied | silent | alarmed |', '|---|---|---|---|---|---|---|']
    for prop, t in sorted(d['tally'].items()):
        out.append('| %s | %d | %d | %s | %d | %d | %s |' % (prop, t['mutants'], t['killed'], ', '.join(t['survivors']) or '0', t['twins'], t['silent'], ', '.join(t['alarmed']) or '0'))
    return '\n'.join(out)


def main():
    p = os.path.join(V, 'DESIGN.md')
    s = open(p).read()
    for name, fn in (('findings', findings), ('seeds', seeds), ('selftest', selftest)):
        pat = re.compile(r'(<!-- BEGIN %s -->\n).*?(<!-- END %s -->)' % (name, name), re.S)
        if pat.search(s):
            s = pat.sub(lambda m: m.group(1) + fn() + '\n' + m.group(2), s)
    open(p, 'w').write(s)


if __name__ == '__main__':
    main()
