#!/venv/bin/python
"""Regenerate the generated tables of DESIGN.md (between <!-- BEGIN x --> / <!-- END x --> markers) from
known_findings.json, seeded/DETECTION.json and selftest/RESULT.json."""
import json
import os
import re

V = os.path.dirname(os.path.dirname(os.path.abspath(__file__)))


def findings():
    d = json.load(open(os.path.join(V, 'known_findings.json')))
    out = ['| id | property | status | /repo commit | rule key (rule, construct) | what failed against the real code | demo |', '|---|---|---|---|---|---|---|']
    for f in d['findings']:
        key = f['key'].split('|')
        what = re.sub(r'^fixed: property=\S+ \S+ ', '', f['what'])
        if f['status'] == 'known':
            what += ' — **not repaired:** ' + f.get('why_not_fixed', '')
        out.append('| %s | %s | %s | %s | %s `%s` | %s | `%s` |' % (f['id'], f['property'], f['status'], f.get('commit', ''), key[0], key[1].split('.', 2)[-1] if key[1].startswith('exabgp.') else key[1], what.replace('|', '\\|'), f.get('demo', '')))
    return '\n'.join(out)


def seeds():
    """one line per seed, from the last full self-test (selftest/RESULT.json) and seeded/HISTORY.json"""
    p = os.path.join(V, 'selftest', 'RESULT.json')
    if not os.path.exists(p):
        return '(self-test not run yet)'
    d = json.load(open(p))
    hist = json.load(open(os.path.join(V, 'seeded', 'HISTORY.json')))
    by_seed: dict = {}
    for r in d['rows']:
        if r['name'].startswith('seed:'):
            by_seed.setdefault(r['name'][5:], []).append(r)
    out = ['From the self-test run against /repo HEAD %s.' % d['repo_head'], '', '| seed | kind | what was changed | result today | how it fared the first time |', '|---|---|---|---|---|']
    for name in sorted(by_seed):
        rows = by_seed[name]
        own = name.split('_')[0]
        notes = os.path.join(V, 'seeded', name, 'notes.md')
        title = open(notes).readline().strip().lstrip('# ').strip() if os.path.exists(notes) else ''
        title = re.sub(r'^C\d\d\s*/\s*\w+\s*[-\u2014\u2013:]+\s*', '', title)
        if rows[0]['kind'] == 'mutant':
            r = [x for x in rows if x['prop'] == own][0]
            if r['status'] == 'killed':
                res = 'reported: ' + '; '.join(sorted({x.split(' :: ')[0] for x in r.get('reports', [])}))[:160]
            else:
                res = '**not reported by %s** (%s)' % (own, r['status'])
            kind = 'break'
        else:
            bad = [x for x in rows if x['status'] != 'silent']
            res = 'silent for all %d checks' % len(rows) if not bad else '**alarm**: ' + ', '.join('%s %s' % (x['prop'], x['status']) for x in bad)
            kind = 'neutral'
        out.append('| %s | %s | %s | %s | %s |' % (name, kind, title.replace('|', '\\|')[:140], res.replace('|', '\\|'), hist.get(name, '').replace('|', '\\|')))
    return '\n'.join(out)


def selftest():
    p = os.path.join(V, 'selftest', 'RESULT.json')
    if not os.path.exists(p):
        return '(not run yet)'
    d = json.load(open(p))
    out = ['Last run: /repo HEAD %s, %d variants, %.0f s.' % (d['repo_head'], len(d['rows']), d['wall_s']), '', '| property | mutants applied | killed | survived | twins applied | silent | alarmed |', '|---|---|---|---|---|---|---|']
    for prop, t in sorted(d['tally'].items()):
        out.append('| %s | %d | %d | %s | %d | %d | %s |' % (prop, t['mutants'], t['killed'], ', '.join(t['survivors']) or '0', t['twins'], t['silent'], ', '.join(t['alarmed']) or '0'))
    return '\n'.join(out)


def main():
    p = os.path.join(V, 'DESIGN.md')
    s = open(p).read()
    for name, fn in (('findings', findings), ('seeds', seeds), ('selftest', selftest)):
        pat = re.compile(r'(<!-- BEGIN %s -->\n).*?(<!-- END %s -->)' % (name, name), re.S)
        if pat.search(s):
            s = pat.sub(lambda m: m.group(1) + fn() + '\n' + m.group(2), s)
    open(p, 'w').write(s)


if __name__ == '__main__':
    main()
