#!/venv/bin/python
"""Freeze the list of functions that exist on the confirmed tree (sa/known_funcs.txt).  Run it only after reading the
tree: a function that is NOT in this list is treated as a later-added helper and is inlined into its callers before the
rules run (sa/inline.py)."""
import os
import sys

sys.path.insert(0, os.path.dirname(os.path.dirname(os.path.abspath(__file__))))
os.environ['VERIF_NO_INLINE'] = '1'
from sa.model import Model  # noqa: E402

m = Model(need_types=False)
names = sorted({q.split('#')[0] for q in m.funcs})
with open(os.path.join(os.path.dirname(os.path.dirname(os.path.abspath(__file__))), 'sa', 'known_funcs.txt'), 'w') as fh:
    fh.write('# functions of /repo/src/exabgp on the confirmed tree (tools/freeze_known_funcs.py); one qualified name per line\n')
    fh.write('\n'.join(names) + '\n')
print(len(names), 'functions')
