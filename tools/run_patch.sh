#!/bin/bash
# usage: tools/run_patch.sh <prop> <patch.diff>   run the property's quick check against a scratch copy of /repo/src with the patch applied
p=$1; patch=$2
d=$(mktemp -d /tmp/verif_rp_XXXXXX)
mkdir -p $d/src && cp -r /repo/src/exabgp $d/src/exabgp
if ! patch -p1 -s -f -d $d -i $patch >/dev/null 2>&1; then echo "[skip] $patch does not apply"; rm -rf $d; exit 0; fi
out=$(cd /verif && VERIF_REPO=$d VERIF_OUT=$d/out VERIF_CACHE=$d/cache ./check $p 2>&1); code=$?
echo "[$code] $p $patch :: $(echo "$out" | grep -c '^VIOLATION') violation(s) $(echo "$out" | grep -c '^ANALYSIS-ERROR') error(s)"
echo "$out" | grep -A1 '^VIOLATION' | grep -v '^VIOLATION\|^--' | cut -c1-260
echo "$out" | grep '^ANALYSIS-ERROR' | cut -c1-260
rm -rf $d
