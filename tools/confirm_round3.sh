#!/bin/bash
# usage: tools/confirm_round3.sh Cxx   confirm /tmp/seed3/Cxx/{E,F,N3} into /verif/seeded
p=$1
cd /verif
for x in E F; do [ -f /tmp/seed3/$p/$x/patch.diff ] && tools/confirm_seed.py /tmp/seed3/$p/$x $p ${p}_$x; done
demos=$(ls /verif/seeded/${p}_[A-M]/demo.py 2>/dev/null | tr '\n' ' ')
[ -f /tmp/seed3/$p/N3/patch.diff ] && tools/confirm_seed.py /tmp/seed3/$p/N3 $p ${p}_N3 --neutral $demos
git -C /repo worktree remove --force /tmp/wt3_$p 2>/dev/null
rm -f /repo/compat_corpus.py
